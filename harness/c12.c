/* C12: no out-of-bounds access / UB for in-contract calls. Sanitizer as oracle: every entry of the API table is called with every length
 * 0..N of its variable-length arguments and every alignment offset, on exact-size heap blocks (the ASan red zone starts at the first
 * byte past each argument) and, in a second pass, with inputs/outputs ending at an inaccessible page. One process = one backend cfg. */
#define _GNU_SOURCE
#include "common.h"
#include <sodium.h>

static unsigned long long n_eval, n_nontriv;
static int thorough, guard_pass;
static const char *cur_api = "?"; static long cur_a, cur_b, cur_c;

/* report which call was running when a sanitizer fires (the runtime calls this hook before aborting) */
void __asan_on_error(void) { printf("FAIL sanitizer/%s/len=%ld/len2=%ld/align=%ld | AddressSanitizer report during this call (see stderr)\n", cur_api, cur_a, cur_b, cur_c); fflush(stdout); }
static void on_abort(int sig) { printf("FAIL sanitizer/%s/len=%ld/len2=%ld/align=%ld | process aborted with signal %d during this call (UBSan report / fault; see stderr)\n", cur_api, cur_a, cur_b, cur_c, sig); fflush(stdout); _exit(1); }

/* ---------------- exact buffers ---------------- */
#define MAXBUF 64
static void *blocks[MAXBUF]; static size_t blocklen[MAXBUF]; static int nblocks;
static unsigned char *xb(size_t len, int align, int fill)
{   /* the returned buffer ends exactly where its allocation ends */
    unsigned char *base, *p;
    if (nblocks >= MAXBUF) exit(2);
    if (guard_pass) {
        size_t pg = 4096, body = (len + (size_t) align + pg - 1) / pg * pg + (len + (size_t) align == 0 ? pg : 0);
        base = mmap(NULL, body + pg, PROT_READ | PROT_WRITE, MAP_PRIVATE | MAP_ANONYMOUS, -1, 0);
        if (base == MAP_FAILED) exit(2);
        mprotect(base + body, pg, PROT_NONE);
        blocks[nblocks] = base; blocklen[nblocks++] = body + pg;
        p = base + body - len;
    } else {
        base = malloc(len + (size_t) align + (len + (size_t) align == 0));
        blocks[nblocks] = base; blocklen[nblocks++] = 0;
        p = base + align;
    }
    if (fill >= 0) vf_pat(p, len, fill, 1200 + len); else memset(p, 0xA5, len);
    return p;
}
static unsigned char *xin(size_t len, int align) { return xb(len, align, PAT_R1); }
static unsigned char *xout(size_t len, int align) { return xb(len, align, -1); }
static char *xstr(const char *s, size_t n) { char *p = (char *) xb(n + 1, 0, -1); memcpy(p, s, n); p[n] = 0; return p; }     /* NUL is the last byte of the block */
static void xfree(void) { while (nblocks) { nblocks--; if (blocklen[nblocks]) munmap(blocks[nblocks], blocklen[nblocks]); else free(blocks[nblocks]); } }
#define CALL(api, a, b, c) (cur_api = api, cur_a = (long) (a), cur_b = (long) (b), cur_c = (long) (c), n_eval++, n_nontriv++, \
    (((a) == 257 && (c) == 5 && vf_worker_id <= 0 && vf_nsample < 6) ? (vf_nsample++, printf("SAMPLE %s with length %ld, second length %ld, alignment offset %ld, %s\n", api, (long) (a), (long) (b), (long) (c), guard_pass ? "every buffer ending at a PROT_NONE page" : "every buffer an exact-size heap block (ASan red zone directly behind it)"), 0) : 0))

static const size_t BND[] = { 0, 1, 15, 16, 17, 31, 32, 33, 63, 64, 65, 127, 128, 129, 223, 224, 225, 255, 256, 257, 511, 512, 513, 1023, 1024, 1025 };
#define NBND (sizeof BND / sizeof BND[0])
static int is_bnd(size_t l) { size_t i; for (i = 0; i < NBND; i++) if (BND[i] == l) return 1; return 0; }
static size_t MAXL;

/* keys and nonces also sit at every alignment offset (a key loaded with an aligned vector load would fault for some of them): the pointers are
 * re-seated at the start of every apis_len / apis_fixed call as a function of the alignment parameter */
static unsigned char KMASTER[32], NMASTER[32], KBUF[32 + 16], NBUF[32 + 16];
static unsigned char *K32 = KBUF, *N24 = NBUF;   /* N24: nonce buffer, 32 bytes because AEGIS-256 takes a 32-byte nonce */
static void seat_keys(int A) { K32 = KBUF + ((A * 3 + 1) & 15); N24 = NBUF + ((A * 7 + 2) & 15); memcpy(K32, KMASTER, 32); memcpy(N24, NMASTER, 32); }
typedef unsigned long long ull;

/* ---------------- per-length API calls ---------------- */
static void apis_len(size_t L, int A)
{
    unsigned char *m, *c, *t, *ad, *o; ull ol; int A2 = (A * 5 + 3) & 15; size_t adl = (L * 3) % 41;
    seat_keys(A);
    /* stream ciphers */
#define STREAM(name) CALL("crypto_stream_" #name, L, 0, A); c = xout(L, A); crypto_stream_##name(c, L, N24, K32); xfree(); \
    CALL("crypto_stream_" #name "_xor", L, 0, A); m = xin(L, A2); c = xout(L, A); crypto_stream_##name##_xor(c, m, L, N24, K32); xfree();
    STREAM(chacha20) STREAM(chacha20_ietf) STREAM(xchacha20) STREAM(salsa20) STREAM(salsa2012) STREAM(salsa208) STREAM(xsalsa20)
    CALL("crypto_stream_chacha20_xor_ic", L, 0, A); m = xin(L, A2); c = xout(L, A); crypto_stream_chacha20_xor_ic(c, m, L, N24, 0xffffffffULL, K32); xfree();
    CALL("crypto_stream_chacha20_ietf_xor_ic", L, 0, A); m = xin(L, A2); c = xout(L, A); crypto_stream_chacha20_ietf_xor_ic(c, m, L, N24, 5, K32); xfree();
    CALL("crypto_stream_salsa20_xor_ic", L, 0, A); m = xin(L, A2); c = xout(L, A); crypto_stream_salsa20_xor_ic(c, m, L, N24, 0xffffffffULL, K32); xfree();
    CALL("crypto_stream_xsalsa20_xor_ic", L, 0, A); m = xin(L, A2); c = xout(L, A); crypto_stream_xsalsa20_xor_ic(c, m, L, N24, 3, K32); xfree();
    CALL("crypto_stream_xchacha20_xor_ic", L, 0, A); m = xin(L, A2); c = xout(L, A); crypto_stream_xchacha20_xor_ic(c, m, L, N24, 3, K32); xfree();
    /* AEADs: combined + detached, encrypt + decrypt (valid and corrupted), NULL/0 AD */
#define AEAD(P, KL, NL, TL, AVAIL) if (AVAIL) { \
    CALL("crypto_aead_" #P "_encrypt", L, adl, A); m = xin(L, A2); ad = adl ? xin(adl, A) : NULL; c = xout(L + TL, A); crypto_aead_##P##_encrypt(c, &ol, m, L, ad, adl, NULL, N24, K32); \
    CALL("crypto_aead_" #P "_decrypt", L, adl, A); o = xout(L, A2); crypto_aead_##P##_decrypt(o, &ol, NULL, c, L + TL, ad, adl, N24, K32); \
    CALL("crypto_aead_" #P "_decrypt(corrupt)", L, adl, A); c[L / 2] ^= 1; crypto_aead_##P##_decrypt(o, &ol, NULL, c, L + TL, ad, adl, N24, K32); \
    CALL("crypto_aead_" #P "_decrypt(short)", L, adl, A); if (L + TL > 0) crypto_aead_##P##_decrypt(o, &ol, NULL, c, (L + TL - 1) % (TL + 3), ad, adl, N24, K32); xfree(); \
    CALL("crypto_aead_" #P "_encrypt_detached", L, adl, A); m = xin(L, A); ad = adl ? xin(adl, A2) : NULL; c = xout(L, A2); t = xout(TL, A); crypto_aead_##P##_encrypt_detached(c, t, &ol, m, L, ad, adl, NULL, N24, K32); \
    CALL("crypto_aead_" #P "_decrypt_detached", L, adl, A); o = xout(L, A); crypto_aead_##P##_decrypt_detached(o, NULL, c, L, t, ad, adl, N24, K32); \
    CALL("crypto_aead_" #P "_decrypt_detached(verify-only)", L, adl, A); crypto_aead_##P##_decrypt_detached(NULL, NULL, c, L, t, ad, adl, N24, K32); \
    CALL("crypto_aead_" #P "_decrypt_detached(verify-only,forged)", L, adl, A); t[L % TL] ^= 0x10; crypto_aead_##P##_decrypt_detached(NULL, NULL, c, L, t, ad, adl, N24, K32); crypto_aead_##P##_decrypt_detached(o, NULL, c, L, t, ad, adl, N24, K32); t[L % TL] ^= 0x10; \
    CALL("crypto_aead_" #P "_encrypt(inplace)", L, adl, A); crypto_aead_##P##_encrypt_detached(c, t, &ol, c, L, ad, adl, NULL, N24, K32); xfree(); }
    AEAD(chacha20poly1305, 32, 8, 16, 1) AEAD(chacha20poly1305_ietf, 32, 12, 16, 1) AEAD(xchacha20poly1305_ietf, 32, 24, 16, 1)
    AEAD(aes256gcm, 32, 12, 16, crypto_aead_aes256gcm_is_available()) AEAD(aegis128l, 16, 16, 32, 1) AEAD(aegis256, 32, 32, 32, 1)
    /* secretbox / box */
#define SBOX(PFX) CALL(#PFX "_easy", L, 0, A); m = xin(L, A2); c = xout(L + 16, A); PFX##_easy(c, m, L, N24, K32); \
    CALL(#PFX "_open_easy", L, 0, A); o = xout(L, A); PFX##_open_easy(o, c, L + 16, N24, K32); c[0] ^= 1; PFX##_open_easy(o, c, L + 16, N24, K32); if (L) PFX##_open_easy(o, c, L % 16, N24, K32); \
    CALL(#PFX "_detached", L, 0, A); t = xout(16, A2); PFX##_detached(c, t, m, L, N24, K32); CALL(#PFX "_open_detached", L, 0, A); PFX##_open_detached(o, c, t, L, N24, K32); xfree();
    SBOX(crypto_secretbox) SBOX(crypto_secretbox_xchacha20poly1305)
    CALL("crypto_secretbox(nacl)", L, 0, A); m = xb(L + 32, A, PAT_Z); memset(m, 0, 32); c = xout(L + 32, A2); crypto_secretbox(c, m, L + 32, N24, K32);
    CALL("crypto_secretbox_open(nacl)", L, 0, A); o = xout(L + 32, A); crypto_secretbox_open(o, c, L + 32, N24, K32); xfree();
    { static unsigned char pk[32], sk[32], seed[32] = { 7 }; static int have; if (!have) { crypto_box_seed_keypair(pk, sk, seed); have = 1; }
      CALL("crypto_box_easy", L, 0, A); m = xin(L, A2); c = xout(L + 16, A); crypto_box_easy(c, m, L, N24, pk, sk); CALL("crypto_box_open_easy", L, 0, A); o = xout(L, A); crypto_box_open_easy(o, c, L + 16, N24, pk, sk);
      CALL("crypto_box_detached", L, 0, A); t = xout(16, A); crypto_box_detached(c, t, m, L, N24, pk, sk); CALL("crypto_box_open_detached", L, 0, A); crypto_box_open_detached(o, c, t, L, N24, pk, sk); xfree();
      CALL("crypto_box_curve25519xchacha20poly1305_easy", L, 0, A); m = xin(L, A2); c = xout(L + 16, A); crypto_box_curve25519xchacha20poly1305_easy(c, m, L, N24, pk, sk); o = xout(L, A); crypto_box_curve25519xchacha20poly1305_open_easy(o, c, L + 16, N24, pk, sk); xfree();
      CALL("crypto_box_seal", L, 0, A); m = xin(L, A); c = xout(L + 48, A2); crypto_box_seal(c, m, L, pk); CALL("crypto_box_seal_open", L, 0, A); o = xout(L, A); crypto_box_seal_open(o, c, L + 48, pk, sk); c[40] ^= 1; crypto_box_seal_open(o, c, L + 48, pk, sk);
      if (L + 48 > 0) crypto_box_seal_open(o, c, L % 48, pk, sk); xfree();
      CALL("crypto_box_curve25519xchacha20poly1305_seal", L, 0, A); m = xin(L, A); c = xout(L + 48, A2); crypto_box_curve25519xchacha20poly1305_seal(c, m, L, pk); o = xout(L, A); crypto_box_curve25519xchacha20poly1305_seal_open(o, c, L + 48, pk, sk); xfree();
      CALL("crypto_box(nacl)", L, 0, A); m = xb(L + 32, A, PAT_Z); memset(m, 0, 32); c = xout(L + 32, A2); crypto_box(c, m, L + 32, N24, pk, sk); o = xout(L + 32, A); crypto_box_open(o, c, L + 32, N24, pk, sk); xfree(); }
    /* hashes and MACs, one-shot and multipart */
    CALL("crypto_hash_sha256", L, 0, A); m = xin(L, A); o = xout(32, A2); crypto_hash_sha256(o, m, L); xfree();
    CALL("crypto_hash_sha512", L, 0, A); m = xin(L, A); o = xout(64, A2); crypto_hash_sha512(o, m, L); xfree();
    CALL("crypto_auth_hmacsha256", L, 0, A); m = xin(L, A); o = xout(32, A2); crypto_auth_hmacsha256(o, m, L, K32); crypto_auth_hmacsha256_verify(o, m, L, K32); xfree();
    CALL("crypto_auth_hmacsha512", L, 0, A); m = xin(L, A); o = xout(64, A2); crypto_auth_hmacsha512(o, m, L, K32); crypto_auth_hmacsha512_verify(o, m, L, K32); xfree();
    CALL("crypto_auth_hmacsha512256", L, 0, A); m = xin(L, A); o = xout(32, A2); crypto_auth_hmacsha512256(o, m, L, K32); crypto_auth_hmacsha512256_verify(o, m, L, K32); crypto_auth(o, m, L, K32); crypto_auth_verify(o, m, L, K32); xfree();
    CALL("crypto_auth_hmacsha256_init(keylen)", L, 0, A); { crypto_auth_hmacsha256_state s2; crypto_auth_hmacsha512_state s5; m = xin(L, A); o = xout(64, A2);
        crypto_auth_hmacsha256_init(&s2, m, L); crypto_auth_hmacsha256_update(&s2, m, L / 2); crypto_auth_hmacsha256_update(&s2, m + L / 2, L - L / 2); crypto_auth_hmacsha256_final(&s2, o);
        crypto_auth_hmacsha512_init(&s5, m, L); crypto_auth_hmacsha512_update(&s5, m, L); crypto_auth_hmacsha512_final(&s5, o); xfree(); }
    CALL("crypto_generichash", L, 0, A); m = xin(L, A); { size_t olen = 1 + L % 64, kl = L % 65; unsigned char *k = kl ? xin(kl, A2) : NULL; crypto_generichash_state gs; o = xout(olen, A2);
        crypto_generichash(o, olen, m, L, k, kl); crypto_generichash_init(&gs, k, kl, olen); crypto_generichash_update(&gs, m, L / 3); crypto_generichash_update(&gs, m + L / 3, L - L / 3); crypto_generichash_final(&gs, o, olen);
        crypto_generichash_blake2b_salt_personal(o, olen, m, L, k, kl, N24, K32); xfree(); }
    CALL("crypto_shorthash", L, 0, A); m = xin(L, A); o = xout(8, A2); crypto_shorthash(o, m, L, K32); xfree(); CALL("crypto_shorthash_siphashx24", L, 0, A); m = xin(L, A); o = xout(16, A2); crypto_shorthash_siphashx24(o, m, L, K32); xfree();
    CALL("crypto_onetimeauth", L, 0, A); m = xin(L, A); o = xout(16, A2); crypto_onetimeauth(o, m, L, K32); crypto_onetimeauth_verify(o, m, L, K32);
    { crypto_onetimeauth_state ps; crypto_onetimeauth_init(&ps, K32); crypto_onetimeauth_update(&ps, m, L / 3); crypto_onetimeauth_update(&ps, m + L / 3, L - L / 3); crypto_onetimeauth_final(&ps, o); } xfree();
    CALL("crypto_kdf_hkdf_sha256_extract", L, 0, A); m = xin(L, A); o = xout(32, A2); crypto_kdf_hkdf_sha256_extract(o, L % 3 ? m : NULL, L % 3 ? L : 0, m, L); xfree();
    CALL("crypto_kdf_hkdf_sha256_expand", L, 0, A); m = xin(L % 90, A); o = xout(L, A2); crypto_kdf_hkdf_sha256_expand(o, L, (const char *) m, L % 90, K32); xfree();
    CALL("crypto_kdf_hkdf_sha512_expand", L, 0, A); { unsigned char *k64 = xin(64, 0); m = xin(L % 90, A); o = xout(L, A2); crypto_kdf_hkdf_sha512_expand(o, L, (const char *) m, L % 90, k64); crypto_kdf_hkdf_sha512_extract(k64, m, L % 90, o, L); xfree(); }
    /* signatures */
    { static unsigned char pk[32], sk[64], seed[32] = { 9 }; static int have; if (!have) { crypto_sign_seed_keypair(pk, sk, seed); have = 1; }
      CALL("crypto_sign", L, 0, A); m = xin(L, A2); c = xout(L + 64, A); crypto_sign(c, &ol, m, L, sk); CALL("crypto_sign_open", L, 0, A); o = xout(L, A); crypto_sign_open(o, &ol, c, L + 64, pk);
      CALL("crypto_sign_open(corrupt)", L, 0, A); c[L / 2] ^= 1; crypto_sign_open(o, &ol, c, L + 64, pk); CALL("crypto_sign_open(short)", L, 0, A); crypto_sign_open(o, &ol, c, L % 64, pk);
      CALL("crypto_sign_detached", L, 0, A); t = xout(64, A2); crypto_sign_detached(t, NULL, m, L, sk); crypto_sign_verify_detached(t, m, L, pk);
      CALL("crypto_sign_multipart", L, 0, A); { crypto_sign_state st; crypto_sign_init(&st); crypto_sign_update(&st, m, L / 2); crypto_sign_update(&st, m + L / 2, L - L / 2); crypto_sign_final_create(&st, t, NULL, sk); crypto_sign_init(&st); crypto_sign_update(&st, m, L); crypto_sign_final_verify(&st, t, pk); } xfree(); }
    /* secretstream */
    { crypto_secretstream_xchacha20poly1305_state s, p; unsigned char hdr[24], tg; CALL("crypto_secretstream_push", L, adl, A);
      crypto_secretstream_xchacha20poly1305_init_push(&s, hdr, K32); crypto_secretstream_xchacha20poly1305_init_pull(&p, hdr, K32); m = xin(L, A2); ad = adl ? xin(adl, A) : NULL; c = xout(L + 17, A);
      crypto_secretstream_xchacha20poly1305_push(&s, c, &ol, m, L, ad, adl, (unsigned char) (L % 4)); CALL("crypto_secretstream_pull", L, adl, A); o = xout(L, A);
      crypto_secretstream_xchacha20poly1305_pull(&p, o, &ol, &tg, c, L + 17, ad, adl); c[L / 2] ^= 1; crypto_secretstream_xchacha20poly1305_pull(&p, o, &ol, &tg, c, L + 17, ad, adl); crypto_secretstream_xchacha20poly1305_pull(&p, o, &ol, &tg, c, L % 17, ad, adl); xfree(); }
    /* utils, codecs, padding, rng */
    CALL("sodium_memcmp/compare/is_zero", L, 0, A); m = xin(L, A); c = xin(L, A2); (void) sodium_memcmp(m, c, L); (void) sodium_compare(m, c, L); (void) sodium_is_zero(m, L); xfree();
    CALL("sodium_increment/add/sub", L, 0, A); m = xin(L, A); c = xin(L, A2); sodium_increment(m, L); sodium_add(m, c, L); sodium_sub(m, c, L); sodium_memzero(m, L); xfree();
    CALL("sodium_bin2hex", L, 0, A); m = xin(L, A); o = xout(2 * L + 1, A2); sodium_bin2hex((char *) o, 2 * L + 1, m, L);
    CALL("sodium_hex2bin", L, 0, A); { size_t bl; const char *e; c = xout(L, A); sodium_hex2bin(c, L, (const char *) o, 2 * L, NULL, &bl, &e); if (L) { sodium_hex2bin(c, L - 1, (const char *) o, 2 * L, ": ", &bl, NULL); sodium_hex2bin(c, L, (const char *) o, 2 * L - 1, NULL, &bl, &e); } xfree(); }
    { int v; static const int VS[4] = { 1, 3, 5, 7 }; for (v = 0; v < 4; v++) { size_t el = sodium_base64_encoded_len(L, VS[v]), bl; const char *e; CALL("sodium_bin2base64", L, VS[v], A); m = xin(L, A); o = xout(el, A2); sodium_bin2base64((char *) o, el, m, L, VS[v]);
        CALL("sodium_base642bin", L, VS[v], A); c = xout(L, A); sodium_base642bin(c, L, (const char *) o, el - 1, NULL, &bl, &e, VS[v]); if (L) sodium_base642bin(c, L - 1, (const char *) o, el - 1, " \n", &bl, NULL, VS[v]);
        if (el > 1) sodium_base642bin(c, L, (const char *) o, el - 2, NULL, &bl, &e, VS[v]); xfree(); } }
    { size_t bs = 1 + L % 37, pl; CALL("sodium_pad", L, bs, A); m = xb(L + bs, A, PAT_C); if (sodium_pad(&pl, m, L, bs, L + bs) == 0) { size_t ul; CALL("sodium_unpad", pl, bs, A); sodium_unpad(&ul, m, pl, bs); } xfree();
      CALL("sodium_unpad(exact)", L, bs, A); if (L >= bs) { size_t ul; m = xin(L, A); sodium_unpad(&ul, m, L, bs); m[L - 1] = 0; sodium_unpad(&ul, m, L, bs); xfree(); } }
    CALL("randombytes_buf", L, 0, A); o = xout(L, A); randombytes_buf(o, L); randombytes_buf_deterministic(o, L, K32); xfree();
    if (L <= 64) { CALL("crypto_kdf_derive_from_key", L, 0, A); o = xout(L, A); crypto_kdf_derive_from_key(o, L, 7, "ctxctxct", K32); xfree(); }
    if (L <= 400) { CALL("crypto_core_ed25519_from_string", L, 0, A);      /* context (a C string) of every length incl. the oversize range > 255, both hashes, all four functions */ { char *ctx; m = xin(L, A); o = xout(32, A2); memset(m, 'x', L); ctx = xstr((const char *) m, L);
        crypto_core_ed25519_from_string(o, ctx, m, L, 2); crypto_core_ed25519_from_string_ro(o, ctx, m, L, 1); crypto_core_ristretto255_from_string(o, L % 2 ? ctx : NULL, m, L, 2); crypto_core_ristretto255_from_string_ro(o, ctx, m, L, 1);
        crypto_core_ed25519_from_string(o, ctx, m, L / 3, 1); crypto_core_ed25519_from_string_ro(o, ctx, m, L ? 1 : 0, 2); crypto_core_ristretto255_from_string(o, ctx, m, L, 1); crypto_core_ristretto255_from_string_ro(o, ctx, m, 0, 2); xfree(); } }
    if (L <= 300 && (L < 40 || L % 16 == 0)) { CALL("crypto_pwhash(pwlen,outlen)", L, 0, A); m = xin(L, A); o = xout(16 + L, A2); crypto_pwhash(o, 16 + L, (const char *) m, L, N24, 1, 8192, crypto_pwhash_ALG_ARGON2ID13);
        crypto_pwhash_scryptsalsa208sha256_ll(m, L, N24, L % 24, 4, 1, 1, o, 16 + L); xfree(); }
}

/* fixed-size APIs: every pointer argument in an exact 32/64-byte block */
static void apis_fixed(int A)
{
    unsigned char *a, *b, *o;
    seat_keys(A);
    CALL("crypto_scalarmult", 32, 0, A); a = xin(32, A); b = xin(32, A); o = xout(32, A); crypto_scalarmult(o, a, b); crypto_scalarmult_base(o, a); crypto_box_beforenm(o, b, a); xfree();
    CALL("crypto_scalarmult_ed25519", 32, 0, A); a = xin(32, A); b = xout(32, A); o = xout(32, A); crypto_scalarmult_ed25519_base(b, a); crypto_scalarmult_ed25519(o, a, b); crypto_scalarmult_ed25519_noclamp(o, a, b); crypto_scalarmult_ed25519_base_noclamp(o, a);
    crypto_core_ed25519_is_valid_point(b); crypto_core_ed25519_add(o, b, b); crypto_core_ed25519_sub(o, b, b); crypto_core_ed25519_from_uniform(o, a); crypto_sign_ed25519_pk_to_curve25519(o, b); xfree();
    CALL("crypto_scalarmult_ristretto255", 32, 0, A); a = xin(32, A); b = xout(32, A); o = xout(32, A); { unsigned char *h = xin(64, A); crypto_core_ristretto255_from_hash(b, h); } crypto_scalarmult_ristretto255(o, a, b); crypto_scalarmult_ristretto255_base(o, a);
    crypto_core_ristretto255_is_valid_point(b); crypto_core_ristretto255_add(o, b, b); crypto_core_ristretto255_sub(o, b, b); xfree();
    CALL("crypto_core_ed25519_scalar_*", 32, 0, A); a = xin(32, A); b = xin(32, A); o = xout(32, A); { unsigned char *w = xin(64, A); crypto_core_ed25519_scalar_reduce(o, w); } crypto_core_ed25519_scalar_add(o, a, b); crypto_core_ed25519_scalar_sub(o, a, b);
    crypto_core_ed25519_scalar_mul(o, a, b); crypto_core_ed25519_scalar_negate(o, a); crypto_core_ed25519_scalar_complement(o, a); crypto_core_ed25519_scalar_invert(o, a); crypto_core_ed25519_scalar_is_canonical(a); xfree();
    CALL("crypto_core_h*", 32, 0, A); a = xin(16, A); b = xin(32, A); o = xout(64, A); crypto_core_hchacha20(o, a, b, NULL); crypto_core_hsalsa20(o, a, b, a); crypto_core_salsa20(o, a, b, NULL); crypto_core_salsa2012(o, a, b, NULL); crypto_core_salsa208(o, a, b, a); xfree();
    CALL("crypto_verify_n", 64, 0, A); a = xin(64, A); b = xin(64, A); crypto_verify_16(a + 48, b + 48); crypto_verify_32(a + 32, b + 32); crypto_verify_64(a, b); xfree();
    CALL("crypto_kx", 32, 0, A); { unsigned char *pk = xout(32, A), *sk = xout(32, A), *rx = xout(32, A), *tx = xout(32, A), *seed = xin(32, A); crypto_kx_seed_keypair(pk, sk, seed); crypto_kx_client_session_keys(rx, tx, pk, sk, pk); crypto_kx_server_session_keys(rx, NULL, pk, sk, pk); xfree(); }
    CALL("crypto_sign_seed_keypair", 32, 0, A); { unsigned char *pk = xout(32, A), *sk = xout(64, A), *seed = xin(32, A), *c = xout(32, A); crypto_sign_seed_keypair(pk, sk, seed); crypto_sign_ed25519_sk_to_curve25519(c, sk); crypto_sign_ed25519_sk_to_seed(c, sk); crypto_sign_ed25519_sk_to_pk(c, sk); xfree(); }
    CALL("keygen", 32, 0, A); { unsigned char *k = xout(32, A); crypto_secretbox_keygen(k); crypto_aead_aegis128l_keygen(k + 16); crypto_shorthash_keygen(k + 16); crypto_box_keypair(k, xout(32, A)); xfree(); }
}

/* attacker-controlled strings: every prefix and every 1-mutation, NUL-terminated in an exact-size block */
static void apis_strings(void)
{
    static const unsigned char MUT[10] = { '$', ',', '=', '0', '9', 'A', '/', '.', 0x80, '-' }; char s_id[128], s_i[128], s_sc[128]; const char *STR[3]; int si; size_t i, n; int k;
    crypto_pwhash_str(s_id, "pw", 2, 1, 8192); crypto_pwhash_str_alg(s_i, "pw", 2, 3, 8192, crypto_pwhash_ALG_ARGON2I13); crypto_pwhash_scryptsalsa208sha256_str(s_sc, "pw", 2, 32768, 16777216);
    STR[0] = s_id; STR[1] = s_i; STR[2] = s_sc;
    for (si = 0; si < 3; si++) { n = strlen(STR[si]);
        for (i = 0; i <= n; i++) { char *p; char tmp[140];
#define TRY(S, LEN, what) do { CALL("crypto_pwhash_str_verify/needs_rehash(" what ")", si, i, LEN); p = xstr(S, LEN); \
            if (si < 2) { crypto_pwhash_str_verify(p, "pw", 2); crypto_pwhash_str_needs_rehash(p, 1, 8192); crypto_pwhash_argon2id_str_verify(p, "pw", 2); crypto_pwhash_argon2i_str_verify(p, "pw", 2); crypto_pwhash_argon2id_str_needs_rehash(p, 1, 8192); crypto_pwhash_argon2i_str_needs_rehash(p, 3, 8192); } \
            else { /* cost parameters of a mutated $7$ string can be astronomically large: only strings whose parameter field is intact are verified */ \
                   if ((LEN) >= 14 && memcmp(S, s_sc, 14) == 0) crypto_pwhash_scryptsalsa208sha256_str_verify(p, "pw", 2); crypto_pwhash_scryptsalsa208sha256_str_needs_rehash(p, 32768, 16777216); crypto_pwhash_str_needs_rehash(p, 32768, 16777216); } xfree(); } while (0)
            TRY(STR[si], i, "prefix");
            if (i < n) for (k = 0; k < 10; k++) { memcpy(tmp, STR[si], n + 1); tmp[i] = (char) MUT[k]; TRY(tmp, n, "replace");
                memcpy(tmp, STR[si], i); tmp[i] = (char) MUT[k]; memcpy(tmp + i + 1, STR[si] + i, n - i + 1); if (n + 1 < 128) TRY(tmp, n + 1, "insert"); }
            if (i < n) { memcpy(tmp, STR[si], i); memcpy(tmp + i, STR[si] + i + 1, n - i); TRY(tmp, n - 1, "delete"); }
        }
    }
    {   static const char *HAND[] = { "", "$", "$7", "$7$", "$7$C", "$7$C6", "$7$C6..../", "$argon2id$", "$argon2id$v=19$", "$argon2id$v=19$m=", "$argon2i$v=19$m=8,t=3,p=1$", "$argon2id$v=19$m=8,t=1,p=1$$",
            "$argon2id$v=19$m=4294967295,t=4294967295,p=4294967295$AAAAAAAAAAAAAAAAAAAAAA$AAAAAAAAAAAAAAAAAAAAAA", "$argon2id$v=19$m=99999999999,t=1,p=1$AAAA$AAAA", "$argon2id$m=8,t=1,p=1$AAAAAAAAAAAAAAAAAAAAAA$AAAAAAAAAAAAAAAAAAAAAAAAAAAAAAAAAAAAAAAAAAA" };
        unsigned h; for (h = 0; h < sizeof HAND / sizeof HAND[0]; h++) { char *p = xstr(HAND[h], strlen(HAND[h])); CALL("crypto_pwhash_str_*(hand)", h, 0, 0);
            crypto_pwhash_str_verify(p, "pw", 2); crypto_pwhash_str_needs_rehash(p, 1, 8192); crypto_pwhash_scryptsalsa208sha256_str_needs_rehash(p, 32768, 16777216); if (strlen(HAND[h]) < 14) crypto_pwhash_scryptsalsa208sha256_str_verify(p, "pw", 2); xfree(); } }
    /* hex / base64 texts: every text of length <= 5 over a class alphabet, exact-size (the byte after the text is a red zone / guard page), with and
     * without ignore set and end pointer */
    {   static const unsigned char CLS[9] = { 'A', 'Q', 'f', '9', '=', ' ', ':', 0x00, 0xE9 }; unsigned len; unsigned long idx, cnt; unsigned char t5[5]; size_t bl; const char *e; int v, k2;
        for (len = 0; len <= 5; len++) { for (cnt = 1, k2 = 0; k2 < (int) len; k2++) cnt *= 9;
          for (idx = 0; idx < cnt; idx++) {
            unsigned char *txt, *o; unsigned long x = idx; for (k2 = 0; k2 < (int) len; k2++) { t5[k2] = CLS[x % 9]; x /= 9; }
            CALL("codecs(short texts)", len, idx, 0); txt = xb(len, 0, -1); memcpy(txt, t5, len); o = xout(4, 1);
            sodium_hex2bin(o, 4, (const char *) txt, len, NULL, &bl, &e); sodium_hex2bin(o, 1, (const char *) txt, len, " :", &bl, NULL); sodium_hex2bin(o, 0, (const char *) txt, len, " :", NULL, &e);
            for (v = 1; v <= 7; v += 2) { sodium_base642bin(o, 4, (const char *) txt, len, NULL, &bl, &e, v); sodium_base642bin(o, 1, (const char *) txt, len, " :", &bl, NULL, v); sodium_base642bin(o, 0, (const char *) txt, len, "", NULL, &e, v);
                                          if (len >= 4) sodium_base642bin(o, 4, (const char *) txt, len, " :", &bl, &e, v); }
            xfree(); } } }
}


static void do_len(long L) { size_t l = (size_t) L; int a; if (is_bnd(l) || (thorough && l <= 130)) { for (a = 0; a < 16; a++) apis_len(l, a); } else { apis_len(l, 0); apis_len(l, (int) ((l * 7 + 1) & 15)); } }
static void fin(void) { vf_stat("evaluations", n_eval); vf_stat("nontrivial", n_nontriv); n_eval = n_nontriv = 0; }

/* custom random sources with every combination of the optional members (stir, uniform, close) absent: installing them and calling each
 * randombytes_* entry point is in contract (randombytes.h) and must not jump through a NULL pointer */
static const char *cs_name(void) { return "verif-c12"; }
static uint32_t cs_random(void) { return 7; }
static void cs_stir(void) { }
static uint32_t cs_uniform(const uint32_t n) { return n ? 1 % n : 0; }
static void cs_buf(void * const b, const size_t n) { memset(b, 3, n); }
static int cs_close(void) { return 0; }
static void custom_sources(void)
{
    int mask, fresh;
    for (fresh = 0; fresh < 2; fresh++) for (mask = 0; mask < 8; mask++) {
        pid_t pid; int st; fflush(stdout); pid = fork();
        if (pid == 0) {
            struct randombytes_implementation im = { cs_name, cs_random, mask & 1 ? cs_stir : NULL, mask & 2 ? cs_uniform : NULL, cs_buf, mask & 4 ? cs_close : NULL }; unsigned char b[40];
            signal(SIGSEGV, SIG_DFL); signal(SIGABRT, SIG_DFL);
            if (fresh) { if (execl("/proc/self/exe", "h_c12", "custom-source", mask & 1 ? "1" : "0", mask & 2 ? "1" : "0", mask & 4 ? "1" : "0", (char *) NULL)) _exit(9); }
            randombytes_set_implementation(&im); randombytes_stir(); (void) randombytes_random(); (void) randombytes_uniform(10); randombytes_buf(b, sizeof b); randombytes(b, 8);
            { unsigned char sk[32]; crypto_box_keypair(b, sk); } (void) randombytes_close(); randombytes_stir(); randombytes_buf(b, 4); _exit(0);
        }
        waitpid(pid, &st, 0); n_eval++; n_nontriv++;
        if (!(WIFEXITED(st) && WEXITSTATUS(st) == 0)) { char key[128]; snprintf(key, sizeof key, "sanitizer/custom-random-source/stir=%d/uniform=%d/close=%d/%s", mask & 1, (mask >> 1) & 1, (mask >> 2) & 1, fresh ? "before-sodium_init" : "after-sodium_init");
            vf_fail(key, "process died or reported an error (status %#x) while using a random source with absent optional members", st); }
    }
}
static int custom_source_fresh(char **argv)      /* re-executed image: the source is installed before sodium_init ever ran */
{
    struct randombytes_implementation im = { cs_name, cs_random, argv[2][0] == '1' ? cs_stir : NULL, argv[3][0] == '1' ? cs_uniform : NULL, cs_buf, argv[4][0] == '1' ? cs_close : NULL }; unsigned char b[64];
    if (randombytes_set_implementation(&im) != 0 || sodium_init() != 0) return 5;
    randombytes_stir(); (void) randombytes_uniform(10); randombytes_buf(b, 32); crypto_box_keypair(b, b + 32); (void) randombytes_close(); randombytes_buf(b, 4);
    return 0;
}

int main(int argc, char **argv)
{
    int pass, a;
    if (argc == 5 && !strcmp(argv[1], "custom-source")) return custom_source_fresh(argv);
    vf_init_seed(); thorough = vf_tier_thorough(); MAXL = thorough ? 1100 : 300;
    signal(SIGABRT, on_abort); signal(SIGSEGV, on_abort); signal(SIGBUS, on_abort); signal(SIGILL, on_abort); signal(SIGFPE, on_abort);
    if (sodium_init() < 0) return 2;
    vf_pat(KMASTER, 32, PAT_R2, 1201); vf_pat(NMASTER, 32, PAT_C, 1202); seat_keys(0);
    printf("INFO features avx512f=%d avx2=%d ssse3=%d sse2=%d aesni=%d\n", sodium_runtime_has_avx512f(), sodium_runtime_has_avx2(), sodium_runtime_has_ssse3(), sodium_runtime_has_sse2(), sodium_runtime_has_aesni());
    for (pass = 0; pass < 2; pass++) {
        guard_pass = pass;
        vf_parallel(16, 0, (long) MAXL + 1, do_len, fin);
        { size_t i; for (i = 0; i < NBND; i++) if (BND[i] > MAXL) do_len((long) BND[i]); }
        { static const size_t BIG[] = { 4095, 4097, 16385, 65537 }; size_t i; for (i = 0; i < 4; i++) { apis_len(BIG[i], 0); apis_len(BIG[i], 13); } }
        for (a = 0; a < 16; a++) apis_fixed(a);
        apis_strings(); fin();
    }
    custom_sources(); fin();
    vf_sample("crypto_aead_aes256gcm_encrypt mlen=225 adlen=19 on exact heap blocks at alignment offsets 0..15 (ASan red zone at byte 225+16 of c)");
    vf_sample("crypto_pwhash_scryptsalsa208sha256_str_needs_rehash(\"$7$C6\") with the NUL as the last byte of its allocation");
    vf_sample("sodium_base642bin text {'A','=',0xE9} (exact 3-byte block) capacity 0, ignore \"\", end pointer given");
    vf_sample("second pass: the same calls with every buffer ending at an inaccessible page");
    return 0;
}
