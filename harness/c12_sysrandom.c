/* C12 and C18: the default random source when getrandom() is not available - the /dev/urandom fallback with short reads and interrupted reads.
 * Environment enumeration: every script of <= 3 deviating answers of read() (1 byte, 2 bytes, half, all but one, EINTR, EAGAIN) before the request
 * is served in full, for 10 randombytes_buf request sizes + randombytes_random() + crypto_secretbox_keygen().  Oracle: the delivered bytes are exactly
 * the concatenation of the bytes the device served (a counter stream), in order; every output byte is overwritten (the buffer is pre-filled with the
 * complement of the expected byte); nothing outside the buffer (canaries; C12 builds this with ASan, C18 natively); exactly n bytes are consumed.
 * getrandom and read are interposed at link time. */
#define _GNU_SOURCE
#include "common.h"
#include <sodium.h>
#include <errno.h>
#include <sys/types.h>

ssize_t __real_read(int fd, void *buf, size_t n);
static int armed, script[4], nscript, spos; static unsigned long served; static unsigned char ctr;
ssize_t __wrap_getrandom(void *buf, size_t len, unsigned flags) { (void) buf; (void) len; (void) flags; errno = ENOSYS; return -1; }
ssize_t __wrap_read(int fd, void *buf, size_t n)
{
    size_t k = n, i;
    if (!armed || fd < 3) return __real_read(fd, buf, n);
    if (spos < nscript) { int a = script[spos++];
        if (a == -1) { errno = EINTR; return -1; }
        if (a == -2) { errno = EAGAIN; return -1; }
        k = a == 1 ? 1 : a == 2 ? 2 : a == 3 ? n / 2 : n - 1; if (k == 0) k = 1; if (k > n) k = n; }
    for (i = 0; i < k; i++) ((unsigned char *) buf)[i] = ctr++;
    served += k;
    return (ssize_t) k;
}
static unsigned long long n_eval, n_nontriv;
int main(void)
{
    static const size_t NS[12] = { 1, 2, 7, 32, 100, 255, 256, 257, 1000, 5000, 4 /* randombytes_random */, crypto_secretbox_KEYBYTES /* keygen */ };
    static const int ALPHA[6] = { 1, 2, 3, 4, -1, -2 };
    unsigned ni; int len, c; unsigned char *buf = malloc(5000 + 64); char key[160];
    vf_init_seed();
    if (sodium_init() < 0) return 2;
    if (strcmp(randombytes_implementation_name(), "sysrandom")) { printf("INFO default source is %s: nothing to do\n", randombytes_implementation_name()); return 0; }
    randombytes_stir();
    for (ni = 0; ni < 12; ni++) for (len = 0; len <= 3; len++) { int total = 1, t; for (t = 0; t < len; t++) total *= 6;
        for (c = 0; c < total; c++) {
            size_t n = NS[ni], i; int v = c; unsigned char first; const char *api = ni < 10 ? "randombytes_buf" : ni == 10 ? "randombytes_random" : "crypto_secretbox_keygen";
            for (t = 0; t < len; t++) { script[t] = ALPHA[v % 6]; v /= 6; }
            nscript = len; spos = 0; served = 0; first = ctr; memset(buf, 0xA5, n + 64);
            for (i = 0; i < n; i++) buf[32 + i] = (unsigned char) ~(first + i);      /* a byte left stale can never equal the expected one */
            snprintf(key, sizeof key, "sysrandom-fallback/%s/n=%zu/read-script=%d,%d,%d(len %d)", api, n, len > 0 ? script[0] : 0, len > 1 ? script[1] : 0, len > 2 ? script[2] : 0, len);
            armed = 1;
            if (ni < 10) randombytes_buf(buf + 32, n); else if (ni == 10) { uint32_t r = randombytes_random(); memcpy(buf + 32, &r, 4); } else crypto_secretbox_keygen(buf + 32);
            armed = 0; n_eval++; n_nontriv++;
            if (len == 3 && c == 98) VF_SAMPLE_CASE(3, "%s: output = the served counter bytes, in order", key);
            if (served != n) vf_fail(key, "%lu bytes were read from the device for a request of %zu", served, n);
            for (i = 0; i < n; i++) if (buf[32 + i] != (unsigned char) (first + i)) { vf_fail(key, "byte %zu of the output is %s", i,
                buf[32 + i] == (unsigned char) ~(first + i) ? "still the caller's old memory (not overwritten)" : "not the byte the device served at that position"); break; }
            for (i = 0; i < 32; i++) if (buf[i] != 0xA5 || buf[32 + n + i] != 0xA5) { vf_fail(key, "wrote outside the requested buffer"); break; }
        } }
    vf_stat("evaluations", n_eval); vf_stat("nontrivial", n_nontriv);
    return 0;
}
