/* C19 complement: the same thread bodies run FREE (no scheduler) under the real ThreadSanitizer runtime (or helgrind), so that
 * accesses the serialising scheduler cannot hook (libc interceptors, uninstrumented assembly) stay visible. Sampled, not exhaustive:
 * reported separately as complement_runs. usage: c19_free <nthreads> <reps> */
#define _GNU_SOURCE
#include <pthread.h>
#include <stdio.h>
#include <stdlib.h>
#include <sys/wait.h>
#include <unistd.h>
#include "c19_ops.h"

static pthread_barrier_t bar; static int NT; static int64_t RES[64][1 + 128]; static int64_t REF[1 + 128];
static int israndom(int i) { return !strcmp(OPS[i].name, "randombytes_buf") || !strcmp(OPS[i].name, "randombytes_uniform") || !strcmp(OPS[i].name, "crypto_secretstream") || !strcmp(OPS[i].name, "crypto_box_keypair") || !strcmp(OPS[i].name, "box_seal/seal_open") * 0 || !strcmp(OPS[i].name, "random points/scalars") * 0; }
static void *body(void *a)
{
    int t = (int) (intptr_t) a, i;
    pthread_barrier_wait(&bar);
    RES[t][0] = sodium_init();
    pthread_barrier_wait(&bar); if (t == 0) ops_shared_setup(); pthread_barrier_wait(&bar);      /* shared const objects are prepared by one thread, published by the barrier */
    for (i = 0; i < NOPS; i++) { int k = (i + t * 7) % NOPS; RES[t][1 + k] = OPS[k].fn(); }
    return NULL;
}
int main(int argc, char **argv)
{
    int reps = argc > 2 ? atoi(argv[2]) : 10, r, bad = 0; NT = argc > 1 ? atoi(argv[1]) : 4;
    for (r = 0; r < reps; r++) {
        pid_t pid = fork(); int st;
        if (pid == 0) {
            pthread_t th[64]; int t, i, zeros = 0;
            pthread_barrier_init(&bar, NULL, (unsigned) NT);
            for (t = 0; t < NT; t++) pthread_create(&th[t], NULL, body, (void *) (intptr_t) t);
            for (t = 0; t < NT; t++) pthread_join(th[t], NULL);
            for (i = 0; i < NOPS; i++) REF[1 + i] = OPS[i].fn();           /* sequential values after the fact */
            for (t = 0; t < NT; t++) { if (RES[t][0] == 0) zeros++; else if (RES[t][0] != 1) { printf("FAIL free/init-return | thread %d got %ld\n", t, (long) RES[t][0]); _exit(1); }
                for (i = 0; i < NOPS; i++) if (RES[t][1 + i] != REF[1 + i] && !israndom(i)) { printf("FAIL free/result/%s | thread %d result differs from the sequential result\n", OPS[i].name, t); _exit(1); } }
            if (zeros != 1) { printf("FAIL free/init-once | %d threads got 0 from sodium_init\n", zeros); _exit(1); }
            _exit(0);
        }
        waitpid(pid, &st, 0);
        if (!(WIFEXITED(st) && WEXITSTATUS(st) == 0)) { bad++; if (WIFEXITED(st) && WEXITSTATUS(st) == 66) printf("FAIL free/tsan-report/threads=%d | ThreadSanitizer reported a data race (see stderr)\n", NT); else if (!WIFEXITED(st) || WEXITSTATUS(st) != 1) printf("FAIL free/crash/threads=%d | status %x\n", NT, st); }
    }
    printf("STAT complement_runs %d\n", reps);
    return bad ? 1 : 0;
}
