/* C19: thread safety by exhaustive schedule exploration (preemption-bounded, stateless DFS with replay prefixes) of the real code
 * under the serialising scheduler in sched/rt.c. Harness A: N threads race through sodium_init and then observe the library.
 * Harness B: after initialisation, every ordered pair of operations from a family table runs in two threads on private buffers. */
#define _GNU_SOURCE
#include "common.h"
#include <sodium.h>
#include "../sched/rt.h"

static unsigned long long n_exec, n_points_total, n_races, n_maxpts, n_outcomes_new; static unsigned long long n_profile_miss;
static int BOUND;

#include "c19_ops.h"
/* observations made by every thread of harness A after its own sodium_init returned */
static const int OBS_A[] = { 0, 1, 2, 4, 5, 6, 7, 8, 9, 12 };
#define NOBS_A ((int) (sizeof OBS_A / sizeof OBS_A[0]))

static int pairA = -1, pairB = -1;
static void body_init(int tid) { int i; (void) tid; sch_obs(sodium_init()); for (i = 0; i < NOBS_A; i++) sch_obs(OPS[OBS_A[i]].fn()); }
static void body_pair(int tid) { sch_obs(OPS[tid == 0 ? pairA : pairB].fn()); }

/* ---------------- one execution in a forked child ---------------- */
typedef struct { int nthreads; void (*body)(int); int pre_init; } cfg_t;
static sch_trace *TR;                      /* MAP_SHARED scratch of this explorer process */
#define CRASH_BASE 100
static int run_once(const cfg_t *c, const uint8_t *prefix, int plen)
{
    pid_t pid; int st, i;
    memset(TR, 0, offsetof(sch_trace, pts)); TR->status = ST_RUNNING;
    fflush(stdout);
    pid = fork();
    if (pid == 0) {
        alarm(60);
        sch_tr = TR; sch_prefix = prefix; sch_prefix_len = plen;
        if (c->pre_init && sodium_init() < 0) _exit(3);
        if (c->pre_init) ops_shared_setup();
        sch_init(c->nthreads);
        for (i = 0; i < c->nthreads; i++) sch_spawn(i, c->body);
        sch_run();
        _exit(0);
    }
    waitpid(pid, &st, 0);
    n_profile_miss += (unsigned long long) TR->profile_miss;
    n_exec++; n_points_total += (unsigned long long) TR->npoints; if ((unsigned long long) TR->npoints > n_maxpts) n_maxpts = (unsigned long long) TR->npoints;
    if (WIFSIGNALED(st)) return CRASH_BASE + WTERMSIG(st);
    if (WEXITSTATUS(st) != 0) return CRASH_BASE + 90;
    return TR->status;
}

/* ---------------- oracle ---------------- */
static int64_t REF_A[1 + 16], REF_OPS[128];
static char ctxname[128];
static uint64_t seen_outcomes[64]; static int nseen;
static void sched_str(char *out, size_t cap, const sch_trace *t)
{   /* compact schedule: the thread chosen at every point where a choice existed, run-length encoded */
    int i, last = -1, run = 0; size_t l = 0; out[0] = 0;
    for (i = 0; i < t->npoints && l + 16 < cap; i++) { int th = t->pts[i].enabled[t->pts[i].chosen_idx];
        if (th == last) { run++; continue; } if (last >= 0) l += (size_t) snprintf(out + l, cap - l, "T%dx%d ", last, run); last = th; run = 1; }
    if (last >= 0 && l + 16 < cap) snprintf(out + l, cap - l, "T%dx%d", last, run);
}
static void choices_str(char *out, size_t cap, const uint8_t *ch, int n)
{   /* replayable choice list: index:choice for every non-default choice */
    int i; size_t l = 0; out[0] = 0; for (i = 0; i < n && l + 12 < cap; i++) if (ch[i]) l += (size_t) snprintf(out + l, cap - l, "%d:%d,", i, ch[i]);
}
static void check_exec(const cfg_t *c, int status, const uint8_t *choices, int nch)
{
    char key[256], cs[160], ss[400]; int t, i;
    choices_str(cs, sizeof cs, choices, nch);
    snprintf(key, sizeof key, "sched/%s/choices=%s", ctxname, cs[0] ? cs : "default");
    if (status == ST_DIVERGED) { printf("INFO replay divergence at %s (harness error)\n", key); fflush(stdout); _exit(2); }
    if (status >= CRASH_BASE) { vf_fail(key, "process died (signal/exit %d) on this schedule, e.g. assert(locked == 0) or a fault", status - CRASH_BASE); return; }
    if (status == ST_DEADLOCK) { vf_fail(key, "deadlock: no enabled thread while some thread has not finished"); return; }
    if (status == ST_HORIZON) { vf_fail(key, "scheduling-point horizon exceeded (livelock?)"); return; }
    if (status != ST_OK) { vf_fail(key, "unexpected status %d", status); return; }
    if (TR->race) { n_races++; sched_str(ss, sizeof ss, TR);
        vf_fail(key, "data race: threads %d (%s) and %d (%s) have unordered conflicting accesses to .data+%#x at point %d (pcs %#lx %#lx); schedule %s", TR->race_t1, TR->race_w1 ? "write" : "read",
                TR->race_t2, TR->race_w2 ? "write" : "read", TR->race_off, TR->race_point, (unsigned long) TR->race_pc1, (unsigned long) TR->race_pc2, ss); return; }
    if (c->body == body_init) {
        int zeros = 0;
        for (t = 0; t < c->nthreads; t++) {
            if (TR->nobs[t] != 1 + NOBS_A) { vf_fail(key, "thread %d made %d observations", t, TR->nobs[t]); return; }
            if (TR->obs[t][0] == 0) zeros++; else if (TR->obs[t][0] != 1) { vf_fail(key, "sodium_init returned %ld in thread %d", (long) TR->obs[t][0], t); return; }
            for (i = 0; i < NOBS_A; i++) if (TR->obs[t][1 + i] != REF_A[1 + i]) { sched_str(ss, sizeof ss, TR);
                vf_fail(key, "thread %d, after its sodium_init returned %ld, observed %s = %#lx but the initialised library gives %#lx (partially initialised library visible); schedule %s",
                        t, (long) TR->obs[t][0], OPS[OBS_A[i]].name, (unsigned long) TR->obs[t][1 + i], (unsigned long) REF_A[1 + i], ss); return; }
        }
        if (zeros != 1) { vf_fail(key, "%d threads got 0 from sodium_init (initialisation must happen exactly once)", zeros); return; }
        { uint64_t o = 0; for (t = 0; t < c->nthreads; t++) o = o * 3 + (uint64_t) TR->obs[t][0]; for (i = 0; i < nseen; i++) if (seen_outcomes[i] == o) break; if (i == nseen && nseen < 64) { seen_outcomes[nseen++] = o; n_outcomes_new++; printf("INFO outcome %s returns=", ctxname); for (t = 0; t < c->nthreads; t++) printf("%ld", (long) TR->obs[t][0]); printf("\n"); } }
    } else {
        if (TR->obs[0][0] != REF_OPS[pairA] || TR->obs[1][0] != REF_OPS[pairB]) { sched_str(ss, sizeof ss, TR);
            vf_fail(key, "concurrent result differs from the sequential result (%s: %#lx vs %#lx, %s: %#lx vs %#lx); schedule %s", OPS[pairA].name, (unsigned long) TR->obs[0][0], (unsigned long) REF_OPS[pairA],
                    OPS[pairB].name, (unsigned long) TR->obs[1][0], (unsigned long) REF_OPS[pairB], ss); }
    }
}

/* ---------------- explorer (guidance idiom: replay prefix, default choice 0 afterwards, branch on later points within the bound) ---------------- */
typedef struct { int n; uint8_t ch[SCH_MAXPTS]; uint8_t nen[SCH_MAXPTS]; uint8_t run_enabled[SCH_MAXPTS]; } xrec;
static int sample_budget = 3;
static void explore(const cfg_t *c, const uint8_t *prefix, int plen, int depth_first_level_only, int only_i, int only_alt)
{
    xrec *x = malloc(sizeof *x); uint8_t *np; int status, i, alt, cost;
    status = run_once(c, prefix, plen);
    x->n = TR->npoints < SCH_MAXPTS ? TR->npoints : SCH_MAXPTS;
    for (i = 0; i < x->n; i++) { x->ch[i] = TR->pts[i].chosen_idx; x->nen[i] = TR->pts[i].nen; x->run_enabled[i] = TR->pts[i].running != 255; }
    for (i = 0; i < plen && i < x->n; i++) if (x->ch[i] != prefix[i]) { printf("INFO replay mismatch\n"); _exit(2); }
    check_exec(c, status, x->ch, x->n);
    if (sample_budget > 0 && vf_worker_id <= 0 && status == ST_OK) { char ss[300]; sched_str(ss, sizeof ss, TR); vf_sample("%s: schedule %s (%d choice points)", ctxname, ss, x->n); sample_budget--; }
    if (vf_nfail >= VF_MAXFAIL) { free(x); return; }
    np = malloc(SCH_MAXPTS);
    cost = 0; for (i = 0; i < plen; i++) if (x->run_enabled[i] && x->ch[i] != 0) cost++;
    for (i = plen; i < x->n; i++) {
        int pc = cost + (x->run_enabled[i] ? 1 : 0);           /* switching away from a still-enabled running thread is a preemption */
        if (pc > BOUND) continue;
        for (alt = 1; alt < x->nen[i]; alt++) {
            if (depth_first_level_only && !(i == only_i && alt == only_alt)) continue;
            memcpy(np, x->ch, (size_t) i); np[i] = (uint8_t) alt;
            explore(c, np, i + 1, 0, 0, 0);
        }
    }
    free(np); free(x);
}

/* work partition: the root execution's (i, alt) deviations are dealt to the workers */
static cfg_t CUR; static int root_n; static uint8_t root_nen[SCH_MAXPTS], root_runen[SCH_MAXPTS]; static int DEV_I[3 * SCH_MAXPTS], DEV_A[3 * SCH_MAXPTS], ndev;
static pid_t tr_owner;
static void private_trace(void)
{   /* the trace region is MAP_SHARED with the execution children; every explorer process needs its own */
    if (tr_owner == getpid()) return;
    TR = mmap(NULL, sizeof(sch_trace), PROT_READ | PROT_WRITE, MAP_SHARED | MAP_ANONYMOUS, -1, 0);
    if (TR == MAP_FAILED) _exit(2);
    tr_owner = getpid();
}
static void worker_dev(long k)
{   /* the root execution takes choice 0 everywhere, so the deviated prefix is zeros(i) ++ [alt] */
    uint8_t *np; private_trace(); np = calloc(SCH_MAXPTS, 1); np[DEV_I[k]] = (uint8_t) DEV_A[k]; explore(&CUR, np, DEV_I[k] + 1, 0, 0, 0); free(np);
}
static void fin(void)
{
    vf_stat("executions", n_exec); vf_stat("choice_points", n_points_total); vf_stat("races", n_races); vf_stat("max_points", n_maxpts); vf_stat("outcomes", n_outcomes_new); vf_stat("profile_misses", n_profile_miss); n_profile_miss = 0;
    n_exec = n_points_total = n_races = n_outcomes_new = 0;
}
static void explore_parallel(const cfg_t *c)
{
    int status, i, alt; uint8_t *ch = malloc(SCH_MAXPTS);
    CUR = *c;
    status = run_once(c, NULL, 0);
    root_n = TR->npoints; for (i = 0; i < root_n; i++) { ch[i] = TR->pts[i].chosen_idx; root_nen[i] = TR->pts[i].nen; root_runen[i] = TR->pts[i].running != 255; }
    check_exec(c, status, ch, root_n);
    { char ss[300]; sched_str(ss, sizeof ss, TR); vf_sample("%s: default schedule %s (%d choice points)", ctxname, ss, root_n); }
    ndev = 0;
    for (i = 0; i < root_n; i++) { if ((root_runen[i] ? 1 : 0) > BOUND) continue; for (alt = 1; alt < root_nen[i]; alt++) { DEV_I[ndev] = i; DEV_A[ndev] = alt; ndev++; } }
    free(ch);
    n_exec++; fin();       /* flush the root's counters so that forked workers start from zero */
    if (status == ST_OK && ndev) vf_parallel(16, 0, ndev, worker_dev, fin);
}

/* the sequential reference: one process, sodium_init then every operation once */
static void compute_reference(void)
{
    int pfd[2], i; pid_t pid; int64_t buf[1 + 128];
    if (pipe(pfd)) exit(2);
    fflush(stdout); pid = fork();
    if (pid == 0) { sch_profile(1); buf[0] = sodium_init(); ops_shared_setup(); for (i = 0; i < NOPS; i++) buf[1 + i] = OPS[i].fn(); sch_profile(0); if (write(pfd[1], buf, sizeof buf) < 0) _exit(3); _exit(0); }
    close(pfd[1]); if (read(pfd[0], buf, sizeof buf) != (ssize_t) sizeof buf) { fprintf(stderr, "reference child failed\n"); exit(2); } close(pfd[0]); waitpid(pid, NULL, 0);
    if (buf[0] != 0) { fprintf(stderr, "reference init failed\n"); exit(2); }
    for (i = 0; i < NOPS; i++) REF_OPS[i] = buf[1 + i];
    for (i = 0; i < NOBS_A; i++) REF_A[1 + i] = REF_OPS[OBS_A[i]];
    /* sodium_init(again) returns 1 once initialised */
}

#define MAXPAIRS 8192
static int PAIRS[MAXPAIRS][2], npairs;
static void do_pair(long k)
{
    cfg_t c; c.nthreads = 2; c.body = body_pair; c.pre_init = 1;
    private_trace();
    pairA = PAIRS[k][0]; pairB = PAIRS[k][1];
    snprintf(ctxname, sizeof ctxname, "pair/%s|%s/bound=%d", OPS[pairA].name, OPS[pairB].name, BOUND);
    sample_budget = (k == 5) ? 1 : 0;
    explore(&c, NULL, 0, 0, 0, 0);
}

int main(int argc, char **argv)
{
    const char *mode = argc > 1 ? argv[1] : "init"; int thorough, a, b;
    vf_init_seed(); thorough = vf_tier_thorough();
    private_trace();
    sch_profile_alloc();
    compute_reference();
    if (!strcmp(mode, "init")) {
        int nthr = argc > 2 ? atoi(argv[2]) : 2; cfg_t c; c.nthreads = nthr; c.body = body_init; c.pre_init = 0;
        BOUND = argc > 3 ? atoi(argv[3]) : 2;
        snprintf(ctxname, sizeof ctxname, "init/threads=%d/bound=%d", nthr, BOUND);
        explore_parallel(&c);
        vf_stat("preemption_bound", (unsigned long long) BOUND);
    } else {          /* pairs: one worker per pair, sequential DFS inside */
        int n = 0; const char *sel = argc > 3 ? argv[3] : "all";
        BOUND = argc > 2 ? atoi(argv[2]) : 1;
        for (a = 0; a < NOPS; a++) for (b = 0; b < NOPS; b++) {
            int keep = !strcmp(sel, "self") ? a == b : !strcmp(sel, "all") || a == b || b == (a + 1) % NOPS || b == (a + 7) % NOPS || a == 2 || b == 2 || a == 12 || b == 12 || a == 24 || b == 24 || a == 23 || b == 23;
            /* "core": every operation against itself, against two neighbours, and against guarded allocation (2), the default RNG (12),
             * sodium_init-again (24) and set_misuse_handler (23) in both orders */
            if (keep && n < MAXPAIRS) { PAIRS[n][0] = a; PAIRS[n][1] = b; n++; }
        }
        npairs = n;
        fin();
        vf_parallel(16, 0, npairs, do_pair, fin);
        vf_stat("preemption_bound", (unsigned long long) BOUND); vf_stat("pairs", (unsigned long long) npairs);
    }
    return 0;
}
