/* Uniform table of authenticated-encryption constructions (used by C01, C02, C13, C10, C12).
 * Every construction offers the four raw call shapes with caller-chosen pointers, plus extra call forms normalised to
 * (ciphertext, tag). Box constructions take their keys from ref/box_table.h (Python RFC 7748 reference). */
#ifndef VF_SYM_TABLE_H
#define VF_SYM_TABLE_H
#include <sodium.h>
#include "ref_stream.h"
#include "ref_hash.h"
#include "box_table.h"

typedef struct { const unsigned char *k; const unsigned char *pk, *sk, *pk2, *sk2; } keyctx;
/* k: symmetric key (for box: the reference shared key); pk = recipient public, sk = sender secret,
 * pk2 = sender public, sk2 = recipient secret (open side) */

typedef unsigned long long ull;
struct cons;
typedef int (*enc_fn)(unsigned char *out, ull *outlen, const unsigned char *m, ull mlen, const unsigned char *ad, ull adlen, const unsigned char *n, const keyctx *kc);
typedef int (*dec_fn)(unsigned char *m, ull *mlen, const unsigned char *in, ull inlen, const unsigned char *ad, ull adlen, const unsigned char *n, const keyctx *kc);
typedef int (*encd_fn)(unsigned char *c, unsigned char *tag, const unsigned char *m, ull mlen, const unsigned char *ad, ull adlen, const unsigned char *n, const keyctx *kc);
typedef int (*decd_fn)(unsigned char *m, const unsigned char *c, ull clen, const unsigned char *tag, const unsigned char *ad, ull adlen, const unsigned char *n, const keyctx *kc);
typedef void (*ref_fn)(unsigned char *c, unsigned char *tag, const unsigned char *m, size_t mlen, const unsigned char *ad, size_t adlen, const unsigned char *n, const unsigned char *k);
/* extra forms: encrypt into normalised (c, tag); decrypt from (c, tag) into m; return library return code */
typedef struct { const char *name; encd_fn enc; decd_fn dec; } xform;

typedef struct cons {
    const char *name; size_t klen, nlen, tlen; int has_ad, tag_first, is_box, null_m_verify;
    int (*avail)(void);
    ref_fn ref; enc_fn enc; dec_fn dec; encd_fn encd; decd_fn decd;
    int nx; xform x[6];
} cons;

static int always(void) { return 1; }
static int gcm_avail(void) { return crypto_aead_aes256gcm_is_available(); }

/* ---- the six AEADs share one signature ---- */
#define AEAD_WRAP(P) \
static int P##_e(unsigned char *o, ull *ol, const unsigned char *m, ull ml, const unsigned char *ad, ull al, const unsigned char *n, const keyctx *kc) { return crypto_aead_##P##_encrypt(o, ol, m, ml, ad, al, NULL, n, kc->k); } \
static int P##_d(unsigned char *m, ull *ml, const unsigned char *in, ull il, const unsigned char *ad, ull al, const unsigned char *n, const keyctx *kc) { return crypto_aead_##P##_decrypt(m, ml, NULL, in, il, ad, al, n, kc->k); } \
static int P##_ed(unsigned char *c, unsigned char *t, const unsigned char *m, ull ml, const unsigned char *ad, ull al, const unsigned char *n, const keyctx *kc) { ull tl = 9999; int r = crypto_aead_##P##_encrypt_detached(c, t, &tl, m, ml, ad, al, NULL, n, kc->k); return r ? r : (tl == crypto_aead_##P##_ABYTES ? 0 : -77); } \
static int P##_dd(unsigned char *m, const unsigned char *c, ull cl, const unsigned char *t, const unsigned char *ad, ull al, const unsigned char *n, const keyctx *kc) { return crypto_aead_##P##_decrypt_detached(m, NULL, c, cl, t, ad, al, n, kc->k); } \
static int P##_ed_nullp(unsigned char *c, unsigned char *t, const unsigned char *m, ull ml, const unsigned char *ad, ull al, const unsigned char *n, const keyctx *kc) { return crypto_aead_##P##_encrypt_detached(c, t, NULL, m, ml, ad, al, NULL, n, kc->k); } \
static int P##_comb_nullp_e(unsigned char *c, unsigned char *t, const unsigned char *m, ull ml, const unsigned char *ad, ull al, const unsigned char *n, const keyctx *kc) { \
    unsigned char *tmp = malloc(ml + 64); int r = crypto_aead_##P##_encrypt(tmp, NULL, m, ml, ad, al, NULL, n, kc->k); memcpy(c, tmp, ml); memcpy(t, tmp + ml, crypto_aead_##P##_ABYTES); free(tmp); return r; } \
static int P##_comb_nullp_d(unsigned char *m, const unsigned char *c, ull cl, const unsigned char *t, const unsigned char *ad, ull al, const unsigned char *n, const keyctx *kc) { \
    unsigned char *tmp = malloc(cl + 64); int r; memcpy(tmp, c, cl); memcpy(tmp + cl, t, crypto_aead_##P##_ABYTES); r = crypto_aead_##P##_decrypt(m, NULL, NULL, tmp, cl + crypto_aead_##P##_ABYTES, ad, al, n, kc->k); free(tmp); return r; }
AEAD_WRAP(chacha20poly1305)
AEAD_WRAP(chacha20poly1305_ietf)
AEAD_WRAP(xchacha20poly1305_ietf)
AEAD_WRAP(aes256gcm)
AEAD_WRAP(aegis128l)
AEAD_WRAP(aegis256)

/* AES-GCM precomputed-key forms */
static int gcm_an_ed(unsigned char *c, unsigned char *t, const unsigned char *m, ull ml, const unsigned char *ad, ull al, const unsigned char *n, const keyctx *kc)
{ crypto_aead_aes256gcm_state st; ull tl = 0; int r; if (crypto_aead_aes256gcm_beforenm(&st, kc->k)) return -70; r = crypto_aead_aes256gcm_encrypt_detached_afternm(c, t, &tl, m, ml, ad, al, NULL, n, &st); return r ? r : (tl == 16 ? 0 : -77); }
static int gcm_an_dd(unsigned char *m, const unsigned char *c, ull cl, const unsigned char *t, const unsigned char *ad, ull al, const unsigned char *n, const keyctx *kc)
{ crypto_aead_aes256gcm_state st; if (crypto_aead_aes256gcm_beforenm(&st, kc->k)) return -70; return crypto_aead_aes256gcm_decrypt_detached_afternm(m, NULL, c, cl, t, ad, al, n, &st); }
static int gcm_an_e(unsigned char *c, unsigned char *t, const unsigned char *m, ull ml, const unsigned char *ad, ull al, const unsigned char *n, const keyctx *kc)
{ crypto_aead_aes256gcm_state st; ull ol = 0; unsigned char *tmp = malloc(ml + 64); int r; if (crypto_aead_aes256gcm_beforenm(&st, kc->k)) { free(tmp); return -70; }
  r = crypto_aead_aes256gcm_encrypt_afternm(tmp, &ol, m, ml, ad, al, NULL, n, &st); memcpy(c, tmp, ml); memcpy(t, tmp + ml, 16); free(tmp); return r ? r : (ol == ml + 16 ? 0 : -77); }
static int gcm_an_d(unsigned char *m, const unsigned char *c, ull cl, const unsigned char *t, const unsigned char *ad, ull al, const unsigned char *n, const keyctx *kc)
{ crypto_aead_aes256gcm_state st; ull ol = 0; unsigned char *tmp = malloc(cl + 64); int r; if (crypto_aead_aes256gcm_beforenm(&st, kc->k)) { free(tmp); return -70; }
  memcpy(tmp, c, cl); memcpy(tmp + cl, t, 16); r = crypto_aead_aes256gcm_decrypt_afternm(m, &ol, NULL, tmp, cl + 16, ad, al, n, &st); free(tmp); return r ? r : (ol == cl ? 0 : -77); }

static void r_gcm(unsigned char *c, unsigned char *t, const unsigned char *m, size_t ml, const unsigned char *ad, size_t al, const unsigned char *n, const unsigned char *k) { ref_aes256gcm_encrypt(c, t, m, ml, ad, al, n, k); }
static void r_a128(unsigned char *c, unsigned char *t, const unsigned char *m, size_t ml, const unsigned char *ad, size_t al, const unsigned char *n, const unsigned char *k) { ref_aegis128l_encrypt(c, t, m, ml, ad, al, n, k); }
static void r_a256(unsigned char *c, unsigned char *t, const unsigned char *m, size_t ml, const unsigned char *ad, size_t al, const unsigned char *n, const unsigned char *k) { ref_aegis256_encrypt(c, t, m, ml, ad, al, n, k); }
static void r_sbx(unsigned char *c, unsigned char *t, const unsigned char *m, size_t ml, const unsigned char *ad, size_t al, const unsigned char *n, const unsigned char *k) { (void) ad; (void) al; ref_secretbox_xsalsa20poly1305(c, t, m, ml, n, k); }
static void r_sbc(unsigned char *c, unsigned char *t, const unsigned char *m, size_t ml, const unsigned char *ad, size_t al, const unsigned char *n, const unsigned char *k) { (void) ad; (void) al; ref_secretbox_xchacha20poly1305(c, t, m, ml, n, k); }

/* ---- secretbox ---- */
#define UNUSED_AD (void) ad; (void) al
static int sbx_e(unsigned char *o, ull *ol, const unsigned char *m, ull ml, const unsigned char *ad, ull al, const unsigned char *n, const keyctx *kc) { UNUSED_AD; if (ol) *ol = ml + 16; return crypto_secretbox_easy(o, m, ml, n, kc->k); }
static int sbx_d(unsigned char *m, ull *ml, const unsigned char *in, ull il, const unsigned char *ad, ull al, const unsigned char *n, const keyctx *kc) { int r = crypto_secretbox_open_easy(m, in, il, n, kc->k); UNUSED_AD; if (ml) *ml = r == 0 ? il - 16 : 0; return r; }
static int sbx_ed(unsigned char *c, unsigned char *t, const unsigned char *m, ull ml, const unsigned char *ad, ull al, const unsigned char *n, const keyctx *kc) { UNUSED_AD; return crypto_secretbox_detached(c, t, m, ml, n, kc->k); }
static int sbx_dd(unsigned char *m, const unsigned char *c, ull cl, const unsigned char *t, const unsigned char *ad, ull al, const unsigned char *n, const keyctx *kc) { UNUSED_AD; return crypto_secretbox_open_detached(m, c, t, cl, n, kc->k); }
static int sbx_nacl_e(unsigned char *c, unsigned char *t, const unsigned char *m, ull ml, const unsigned char *ad, ull al, const unsigned char *n, const keyctx *kc)
{ unsigned char *pm = calloc(ml + 32, 1), *pc = malloc(ml + 32); int r, i, z = 1; UNUSED_AD; memcpy(pm + 32, m, ml); memset(pc, 0xEE, ml + 32);
  r = crypto_secretbox(pc, pm, ml + 32, n, kc->k); for (i = 0; i < 16; i++) if (pc[i]) z = 0; memcpy(t, pc + 16, 16); memcpy(c, pc + 32, ml); free(pm); free(pc); return r ? r : (z ? 0 : -78); }
static int sbx_nacl_d(unsigned char *m, const unsigned char *c, ull cl, const unsigned char *t, const unsigned char *ad, ull al, const unsigned char *n, const keyctx *kc)
{ unsigned char *pc = calloc(cl + 32, 1), *pm = malloc(cl + 32); int r, i, z = 1; UNUSED_AD; memcpy(pc + 16, t, 16); memcpy(pc + 32, c, cl); memset(pm, 0xEE, cl + 32);
  r = crypto_secretbox_open(pm, pc, cl + 32, n, kc->k); if (r == 0) { for (i = 0; i < 32; i++) if (pm[i]) z = 0; } if (m) memcpy(m, pm + 32, cl);   /* also after a rejection: what the library left in its output buffer is part of the observation */ free(pm); free(pc); return r ? r : (z ? 0 : -78); }
static int sbc_e(unsigned char *o, ull *ol, const unsigned char *m, ull ml, const unsigned char *ad, ull al, const unsigned char *n, const keyctx *kc) { UNUSED_AD; if (ol) *ol = ml + 16; return crypto_secretbox_xchacha20poly1305_easy(o, m, ml, n, kc->k); }
static int sbc_d(unsigned char *m, ull *ml, const unsigned char *in, ull il, const unsigned char *ad, ull al, const unsigned char *n, const keyctx *kc) { int r = crypto_secretbox_xchacha20poly1305_open_easy(m, in, il, n, kc->k); UNUSED_AD; if (ml) *ml = r == 0 ? il - 16 : 0; return r; }
static int sbc_ed(unsigned char *c, unsigned char *t, const unsigned char *m, ull ml, const unsigned char *ad, ull al, const unsigned char *n, const keyctx *kc) { UNUSED_AD; return crypto_secretbox_xchacha20poly1305_detached(c, t, m, ml, n, kc->k); }
static int sbc_dd(unsigned char *m, const unsigned char *c, ull cl, const unsigned char *t, const unsigned char *ad, ull al, const unsigned char *n, const keyctx *kc) { UNUSED_AD; return crypto_secretbox_xchacha20poly1305_open_detached(m, c, t, cl, n, kc->k); }

/* ---- box (xsalsa) ---- */
static int bx_e(unsigned char *o, ull *ol, const unsigned char *m, ull ml, const unsigned char *ad, ull al, const unsigned char *n, const keyctx *kc) { UNUSED_AD; if (ol) *ol = ml + 16; return crypto_box_easy(o, m, ml, n, kc->pk, kc->sk); }
static int bx_d(unsigned char *m, ull *ml, const unsigned char *in, ull il, const unsigned char *ad, ull al, const unsigned char *n, const keyctx *kc) { int r = crypto_box_open_easy(m, in, il, n, kc->pk2, kc->sk2); UNUSED_AD; if (ml) *ml = r == 0 ? il - 16 : 0; return r; }
static int bx_ed(unsigned char *c, unsigned char *t, const unsigned char *m, ull ml, const unsigned char *ad, ull al, const unsigned char *n, const keyctx *kc) { UNUSED_AD; return crypto_box_detached(c, t, m, ml, n, kc->pk, kc->sk); }
static int bx_dd(unsigned char *m, const unsigned char *c, ull cl, const unsigned char *t, const unsigned char *ad, ull al, const unsigned char *n, const keyctx *kc) { UNUSED_AD; return crypto_box_open_detached(m, c, t, cl, n, kc->pk2, kc->sk2); }
static int bx_an_ed(unsigned char *c, unsigned char *t, const unsigned char *m, ull ml, const unsigned char *ad, ull al, const unsigned char *n, const keyctx *kc) { unsigned char k[32]; UNUSED_AD; if (crypto_box_beforenm(k, kc->pk, kc->sk)) return -70; return crypto_box_detached_afternm(c, t, m, ml, n, k); }
static int bx_an_dd(unsigned char *m, const unsigned char *c, ull cl, const unsigned char *t, const unsigned char *ad, ull al, const unsigned char *n, const keyctx *kc) { unsigned char k[32]; UNUSED_AD; if (crypto_box_beforenm(k, kc->pk2, kc->sk2)) return -70; return crypto_box_open_detached_afternm(m, c, t, cl, n, k); }
static int bx_ane_e(unsigned char *c, unsigned char *t, const unsigned char *m, ull ml, const unsigned char *ad, ull al, const unsigned char *n, const keyctx *kc)
{ unsigned char k[32], *tmp = malloc(ml + 16); int r; UNUSED_AD; if (crypto_box_beforenm(k, kc->pk, kc->sk)) { free(tmp); return -70; } r = crypto_box_easy_afternm(tmp, m, ml, n, k); memcpy(t, tmp, 16); memcpy(c, tmp + 16, ml); free(tmp); return r; }
static int bx_ane_d(unsigned char *m, const unsigned char *c, ull cl, const unsigned char *t, const unsigned char *ad, ull al, const unsigned char *n, const keyctx *kc)
{ unsigned char k[32], *tmp = malloc(cl + 16); int r; UNUSED_AD; if (crypto_box_beforenm(k, kc->pk2, kc->sk2)) { free(tmp); return -70; } memcpy(tmp, t, 16); memcpy(tmp + 16, c, cl); r = crypto_box_open_easy_afternm(m, tmp, cl + 16, n, k); free(tmp); return r; }
static int bx_nacl_e(unsigned char *c, unsigned char *t, const unsigned char *m, ull ml, const unsigned char *ad, ull al, const unsigned char *n, const keyctx *kc)
{ unsigned char *pm = calloc(ml + 32, 1), *pc = malloc(ml + 32); int r, i, z = 1; UNUSED_AD; memcpy(pm + 32, m, ml); memset(pc, 0xEE, ml + 32);
  r = crypto_box(pc, pm, ml + 32, n, kc->pk, kc->sk); for (i = 0; i < 16; i++) if (pc[i]) z = 0; memcpy(t, pc + 16, 16); memcpy(c, pc + 32, ml); free(pm); free(pc); return r ? r : (z ? 0 : -78); }
static int bx_nacl_d(unsigned char *m, const unsigned char *c, ull cl, const unsigned char *t, const unsigned char *ad, ull al, const unsigned char *n, const keyctx *kc)
{ unsigned char *pc = calloc(cl + 32, 1), *pm = malloc(cl + 32); int r, i, z = 1; UNUSED_AD; memcpy(pc + 16, t, 16); memcpy(pc + 32, c, cl); memset(pm, 0xEE, cl + 32);
  r = crypto_box_open(pm, pc, cl + 32, n, kc->pk2, kc->sk2); if (r == 0) { for (i = 0; i < 32; i++) if (pm[i]) z = 0; } if (m) memcpy(m, pm + 32, cl);   /* also after a rejection: what the library left in its output buffer is part of the observation */ free(pm); free(pc); return r ? r : (z ? 0 : -78); }
static int bx_nacl_an_e(unsigned char *c, unsigned char *t, const unsigned char *m, ull ml, const unsigned char *ad, ull al, const unsigned char *n, const keyctx *kc)
{ unsigned char k[32], *pm = calloc(ml + 32, 1), *pc = malloc(ml + 32); int r; UNUSED_AD; memcpy(pm + 32, m, ml); if (crypto_box_beforenm(k, kc->pk, kc->sk)) { free(pm); free(pc); return -70; }
  r = crypto_box_afternm(pc, pm, ml + 32, n, k); memcpy(t, pc + 16, 16); memcpy(c, pc + 32, ml); free(pm); free(pc); return r; }
static int bx_nacl_an_d(unsigned char *m, const unsigned char *c, ull cl, const unsigned char *t, const unsigned char *ad, ull al, const unsigned char *n, const keyctx *kc)
{ unsigned char k[32], *pc = calloc(cl + 32, 1), *pm = malloc(cl + 32); int r; UNUSED_AD; memcpy(pc + 16, t, 16); memcpy(pc + 32, c, cl); memset(pm, 0xEE, cl + 32); if (crypto_box_beforenm(k, kc->pk2, kc->sk2)) { free(pm); free(pc); return -70; }
  r = crypto_box_open_afternm(pm, pc, cl + 32, n, k); if (m) memcpy(m, pm + 32, cl); free(pm); free(pc); return r; }
/* ---- box (xchacha) ---- */
#define BXC(f) crypto_box_curve25519xchacha20poly1305_##f
static int bc_e(unsigned char *o, ull *ol, const unsigned char *m, ull ml, const unsigned char *ad, ull al, const unsigned char *n, const keyctx *kc) { UNUSED_AD; if (ol) *ol = ml + 16; return BXC(easy)(o, m, ml, n, kc->pk, kc->sk); }
static int bc_d(unsigned char *m, ull *ml, const unsigned char *in, ull il, const unsigned char *ad, ull al, const unsigned char *n, const keyctx *kc) { int r = BXC(open_easy)(m, in, il, n, kc->pk2, kc->sk2); UNUSED_AD; if (ml) *ml = r == 0 ? il - 16 : 0; return r; }
static int bc_ed(unsigned char *c, unsigned char *t, const unsigned char *m, ull ml, const unsigned char *ad, ull al, const unsigned char *n, const keyctx *kc) { UNUSED_AD; return BXC(detached)(c, t, m, ml, n, kc->pk, kc->sk); }
static int bc_dd(unsigned char *m, const unsigned char *c, ull cl, const unsigned char *t, const unsigned char *ad, ull al, const unsigned char *n, const keyctx *kc) { UNUSED_AD; return BXC(open_detached)(m, c, t, cl, n, kc->pk2, kc->sk2); }
static int bc_an_ed(unsigned char *c, unsigned char *t, const unsigned char *m, ull ml, const unsigned char *ad, ull al, const unsigned char *n, const keyctx *kc) { unsigned char k[32]; UNUSED_AD; if (BXC(beforenm)(k, kc->pk, kc->sk)) return -70; return BXC(detached_afternm)(c, t, m, ml, n, k); }
static int bc_an_dd(unsigned char *m, const unsigned char *c, ull cl, const unsigned char *t, const unsigned char *ad, ull al, const unsigned char *n, const keyctx *kc) { unsigned char k[32]; UNUSED_AD; if (BXC(beforenm)(k, kc->pk2, kc->sk2)) return -70; return BXC(open_detached_afternm)(m, c, t, cl, n, k); }
static int bc_ane_e(unsigned char *c, unsigned char *t, const unsigned char *m, ull ml, const unsigned char *ad, ull al, const unsigned char *n, const keyctx *kc)
{ unsigned char k[32], *tmp = malloc(ml + 16); int r; UNUSED_AD; if (BXC(beforenm)(k, kc->pk, kc->sk)) { free(tmp); return -70; } r = BXC(easy_afternm)(tmp, m, ml, n, k); memcpy(t, tmp, 16); memcpy(c, tmp + 16, ml); free(tmp); return r; }
static int bc_ane_d(unsigned char *m, const unsigned char *c, ull cl, const unsigned char *t, const unsigned char *ad, ull al, const unsigned char *n, const keyctx *kc)
{ unsigned char k[32], *tmp = malloc(cl + 16); int r; UNUSED_AD; if (BXC(beforenm)(k, kc->pk2, kc->sk2)) { free(tmp); return -70; } memcpy(tmp, t, 16); memcpy(tmp + 16, c, cl); r = BXC(open_easy_afternm)(m, tmp, cl + 16, n, k); free(tmp); return r; }

static const cons CONS[] = {
    { "aead_chacha20poly1305", 32, 8, 16, 1, 0, 0, 1, always, ref_aead_chacha20poly1305, chacha20poly1305_e, chacha20poly1305_d, chacha20poly1305_ed, chacha20poly1305_dd,
      2, { { "detached-nullmaclen", chacha20poly1305_ed_nullp, chacha20poly1305_dd }, { "combined-nulllen", chacha20poly1305_comb_nullp_e, chacha20poly1305_comb_nullp_d } } },
    { "aead_chacha20poly1305_ietf", 32, 12, 16, 1, 0, 0, 1, always, ref_aead_chacha20poly1305_ietf, chacha20poly1305_ietf_e, chacha20poly1305_ietf_d, chacha20poly1305_ietf_ed, chacha20poly1305_ietf_dd,
      2, { { "detached-nullmaclen", chacha20poly1305_ietf_ed_nullp, chacha20poly1305_ietf_dd }, { "combined-nulllen", chacha20poly1305_ietf_comb_nullp_e, chacha20poly1305_ietf_comb_nullp_d } } },
    { "aead_xchacha20poly1305_ietf", 32, 24, 16, 1, 0, 0, 1, always, ref_aead_xchacha20poly1305_ietf, xchacha20poly1305_ietf_e, xchacha20poly1305_ietf_d, xchacha20poly1305_ietf_ed, xchacha20poly1305_ietf_dd,
      2, { { "detached-nullmaclen", xchacha20poly1305_ietf_ed_nullp, xchacha20poly1305_ietf_dd }, { "combined-nulllen", xchacha20poly1305_ietf_comb_nullp_e, xchacha20poly1305_ietf_comb_nullp_d } } },
    { "aead_aes256gcm", 32, 12, 16, 1, 0, 0, 1, gcm_avail, r_gcm, aes256gcm_e, aes256gcm_d, aes256gcm_ed, aes256gcm_dd,
      4, { { "detached-nullmaclen", aes256gcm_ed_nullp, aes256gcm_dd }, { "combined-nulllen", aes256gcm_comb_nullp_e, aes256gcm_comb_nullp_d },
           { "detached-afternm", gcm_an_ed, gcm_an_dd }, { "combined-afternm", gcm_an_e, gcm_an_d } } },
    { "aead_aegis128l", 16, 16, 32, 1, 0, 0, 1, always, r_a128, aegis128l_e, aegis128l_d, aegis128l_ed, aegis128l_dd,
      2, { { "detached-nullmaclen", aegis128l_ed_nullp, aegis128l_dd }, { "combined-nulllen", aegis128l_comb_nullp_e, aegis128l_comb_nullp_d } } },
    { "aead_aegis256", 32, 32, 32, 1, 0, 0, 1, always, r_a256, aegis256_e, aegis256_d, aegis256_ed, aegis256_dd,
      2, { { "detached-nullmaclen", aegis256_ed_nullp, aegis256_dd }, { "combined-nulllen", aegis256_comb_nullp_e, aegis256_comb_nullp_d } } },
    { "secretbox_xsalsa20poly1305", 32, 24, 16, 0, 1, 0, 1, always, r_sbx, sbx_e, sbx_d, sbx_ed, sbx_dd, 1, { { "nacl-zero-padded", sbx_nacl_e, sbx_nacl_d } } },
    { "secretbox_xchacha20poly1305", 32, 24, 16, 0, 1, 0, 1, always, r_sbc, sbc_e, sbc_d, sbc_ed, sbc_dd, 0, { { NULL, NULL, NULL } } },
    { "box_curve25519xsalsa20poly1305", 32, 24, 16, 0, 1, 1, 1, always, r_sbx, bx_e, bx_d, bx_ed, bx_dd,
      4, { { "detached-afternm", bx_an_ed, bx_an_dd }, { "easy-afternm", bx_ane_e, bx_ane_d }, { "nacl-zero-padded", bx_nacl_e, bx_nacl_d }, { "nacl-afternm", bx_nacl_an_e, bx_nacl_an_d } } },
    { "box_curve25519xchacha20poly1305", 32, 24, 16, 0, 1, 1, 1, always, r_sbc, bc_e, bc_d, bc_ed, bc_dd,
      2, { { "detached-afternm", bc_an_ed, bc_an_dd }, { "easy-afternm", bc_ane_e, bc_ane_d } } },
};
#define NCONS ((int) (sizeof CONS / sizeof CONS[0]))

/* key context for a construction: symmetric pattern key, or row `row` of the X25519 table (direction a -> b) */
static void cons_keys(const cons *C, keyctx *kc, unsigned char *kbuf /* 32 */, int pat, int row)
{
    static const unsigned char zero16[16] = { 0 };
    memset(kc, 0, sizeof *kc);
    if (!C->is_box) { vf_pat(kbuf, C->klen, pat, 201); kc->k = kbuf; return; }
    row %= BOX_TABLE_N;
    kc->pk = BOX_TABLE[row].pkb; kc->sk = BOX_TABLE[row].ska; kc->pk2 = BOX_TABLE[row].pka; kc->sk2 = BOX_TABLE[row].skb;
    if (C->ref == r_sbx) ref_hsalsa20(kbuf, zero16, BOX_TABLE[row].q, NULL); else ref_hchacha20(kbuf, zero16, BOX_TABLE[row].q, NULL);
    kc->k = kbuf;
}
#endif
