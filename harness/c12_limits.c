/* C12 size limits: arguments beyond the documented maximum are refused (misuse handler or error return) rather than processed.
 * Run on the uninstrumented native build. Most entry points refuse before touching memory: they are probed with a one-page buffer
 * followed by PROT_NONE (refused vs fault). AES-256-GCM refuses with -1 AFTER wiping the mlen-byte output, so it is probed on a real
 * 64 GiB virtual buffer built from 8 MiB of physical memory mapped 8192 times (aliased), where the call can run to completion. */
#define _GNU_SOURCE
#include "common.h"
#include <signal.h>
#include <sodium.h>
typedef unsigned long long ull;
static unsigned long long n_eval, n_nontriv;
static unsigned char K32[32], N24[32];
/* ---------------- size limits: beyond the documented maximum => refused (misuse handler or error) before any access ---------------- */
static void misuse_exit(void) { _exit(77); }
static void segv_exit(int s) { (void) s; _exit(88); }
static void limit_probe(const char *name, int which, unsigned long long len, int must_refuse)
{
    pid_t pid; int st; char key[160]; fflush(stdout); pid = fork();
    if (pid == 0) {
        vf_guard g; unsigned char *buf = vf_guard_alloc(&g, 4096, 0), tag[32], tg; ull ol; int r = 0; crypto_secretstream_xchacha20poly1305_state s; unsigned char hdr[24];
        signal(SIGSEGV, segv_exit); signal(SIGBUS, segv_exit); sodium_set_misuse_handler(misuse_exit);
        switch (which) {
        case 0: r = crypto_aead_chacha20poly1305_ietf_encrypt_detached(buf, tag, &ol, buf, len, NULL, 0, NULL, N24, K32); break;
        case 1: r = crypto_aead_chacha20poly1305_ietf_decrypt_detached(buf, NULL, buf, len, tag, NULL, 0, N24, K32); break;
        case 2: r = crypto_aead_chacha20poly1305_ietf_encrypt(buf, &ol, buf, len, NULL, 0, NULL, N24, K32); break;
        case 3: r = crypto_aead_xchacha20poly1305_ietf_encrypt_detached(buf, tag, &ol, buf, len, NULL, 0, NULL, N24, K32); break;
        case 4: r = crypto_aead_xchacha20poly1305_ietf_decrypt_detached(buf, NULL, buf, len, tag, NULL, 0, N24, K32); break;
        case 5: crypto_secretstream_xchacha20poly1305_init_push(&s, hdr, K32); r = crypto_secretstream_xchacha20poly1305_push(&s, buf, &ol, buf, len, NULL, 0, 0); break;
        case 6: crypto_secretstream_xchacha20poly1305_init_pull(&s, N24, K32); r = crypto_secretstream_xchacha20poly1305_pull(&s, buf, &ol, &tg, buf, len + 17, NULL, 0); break;
        case 7: if (!crypto_aead_aes256gcm_is_available()) _exit(77); r = crypto_aead_aes256gcm_encrypt_detached(buf, tag, &ol, buf, len, NULL, 0, NULL, N24, K32); break;
        case 8: if (!crypto_aead_aes256gcm_is_available()) _exit(77); r = crypto_aead_aes256gcm_decrypt_detached(buf, NULL, buf, len, tag, NULL, 0, N24, K32); break;
        case 9: r = crypto_stream_chacha20_ietf_xor(buf, buf, len, N24, K32); break;
        case 10: r = crypto_aead_chacha20poly1305_ietf_decrypt(buf, &ol, NULL, buf, len + 16, NULL, 0, N24, K32); break;
        }
        _exit(r == 0 ? 0 : 78);
    }
    waitpid(pid, &st, 0); n_eval++; n_nontriv++;
    snprintf(key, sizeof key, "size-limit/%s/len=%llu", name, len);
    { int refused = WIFEXITED(st) && (WEXITSTATUS(st) == 77 || WEXITSTATUS(st) == 78), processed = (WIFEXITED(st) && WEXITSTATUS(st) == 88) || WIFSIGNALED(st);
      /* decrypt-direction calls authenticate (read) their whole input before anything else: with a one-page buffer that read faults, which
       * cannot be told apart from processing -> only an outright success is judged for them */
      int decrypt_dir = (which == 1 || which == 4 || which == 10);
      if (must_refuse && !refused && !(decrypt_dir && processed)) vf_fail(key, "request beyond the documented size limit was %s instead of refused", processed ? "processed (fault on the guard page)" : "accepted");
      if (!must_refuse && !processed && !(WIFEXITED(st) && WEXITSTATUS(st) == 0)) vf_fail(key, "in-range request was refused (status %x)", st); }
}
static void limit_probes(void)
{
    static const char *NM[11] = { "aead_chacha20poly1305_ietf_encrypt_detached", "aead_chacha20poly1305_ietf_decrypt_detached", "aead_chacha20poly1305_ietf_encrypt", "aead_xchacha20poly1305_ietf_encrypt_detached",
        "aead_xchacha20poly1305_ietf_decrypt_detached", "secretstream_push", "secretstream_pull", "aead_aes256gcm_encrypt_detached", "aead_aes256gcm_decrypt_detached", "stream_chacha20_ietf_xor", "aead_chacha20poly1305_ietf_decrypt" };
    int w, d; unsigned long long lim;
    for (w = 0; w < 11; w++) {
        if (w == 7 || w == 8) continue;      /* AES-GCM: see gcm_alias_probe */
        if (w == 3 || w == 4) continue;      /* XChaCha20-Poly1305-IETF documents SIZE_MAX-16 (its "ext" stream carries the counter into the zero nonce prefix):
                                                the limit cannot be exceeded with a real buffer, nothing to judge */
        lim = (w == 7 || w == 8) ? crypto_aead_aes256gcm_MESSAGEBYTES_MAX : (w == 5 || w == 6) ? crypto_secretstream_xchacha20poly1305_MESSAGEBYTES_MAX : (w == 9) ? crypto_stream_chacha20_ietf_MESSAGEBYTES_MAX : crypto_aead_chacha20poly1305_ietf_MESSAGEBYTES_MAX;
        for (d = -1; d <= 2; d++) limit_probe(NM[w], w, lim + (unsigned long long) (long long) d, d > 0);
        limit_probe(NM[w], w, lim + 64, 1); limit_probe(NM[w], w, lim * 2, 1); limit_probe(NM[w], w, 1ULL << 47, 1);
    }
}


/* ---- AES-256-GCM on an aliased 64 GiB buffer ---- */
static unsigned char *alias_buffer(size_t total)
{
    size_t chunk = (size_t) 8 << 20, off, span; int fd = memfd_create("verif-alias", 0); unsigned char *base;
    if (fd < 0 || ftruncate(fd, (off_t) chunk)) return NULL;
    span = (total + chunk - 1) / chunk * chunk;            /* whole chunks only: a MAP_FIXED overlay must never reach past the reservation */
    base = mmap(NULL, span, PROT_NONE, MAP_PRIVATE | MAP_ANONYMOUS | MAP_NORESERVE, -1, 0);
    if (base == MAP_FAILED) return NULL;
    for (off = 0; off < span; off += chunk) if (mmap(base + off, chunk, PROT_READ | PROT_WRITE, MAP_SHARED | MAP_FIXED, fd, 0) == MAP_FAILED) return NULL;
    close(fd);
    return base;
}
static void gcm_alias_probe(unsigned long long len, int decrypt)
{
    pid_t pid; int st; char key[160]; fflush(stdout); pid = fork();
    if (pid == 0) {
        unsigned char *buf, tag[16] = { 0 }; ull ol; int r; alarm(900);
        sodium_set_misuse_handler(misuse_exit);
        buf = alias_buffer((size_t) len + 4096); if (!buf) _exit(99);
        r = decrypt ? crypto_aead_aes256gcm_decrypt_detached(buf, NULL, buf, len, tag, NULL, 0, N24, K32) : crypto_aead_aes256gcm_encrypt_detached(buf, tag, &ol, buf, len, NULL, 0, NULL, N24, K32);
        _exit(r == 0 ? 0 : 78);
    }
    waitpid(pid, &st, 0); n_eval++; n_nontriv++;
    snprintf(key, sizeof key, "size-limit/aead_aes256gcm_%s_detached(aliased-64GiB)/len=%llu", decrypt ? "decrypt" : "encrypt", len);
    if (WIFEXITED(st) && WEXITSTATUS(st) == 99) { printf("INFO could not build the aliased buffer; AES-GCM limit not probed\n"); return; }
    if (!(WIFEXITED(st) && (WEXITSTATUS(st) == 77 || WEXITSTATUS(st) == 78))) vf_fail(key, "request beyond MESSAGEBYTES_MAX was not refused (wait status %#x: %s)", st, WIFEXITED(st) && WEXITSTATUS(st) == 0 ? "returned 0 = processed" : "crashed/timed out");
}
static void fin(void) { vf_stat("evaluations", n_eval); vf_stat("nontrivial", n_nontriv); n_eval = n_nontriv = 0; }
int main(void)
{
    vf_init_seed();
    if (sodium_init() < 0) return 2;
    vf_pat(K32, 32, PAT_R2, 1201); vf_pat(N24, 32, PAT_C, 1202);
    limit_probes();
    if (crypto_aead_aes256gcm_is_available()) { gcm_alias_probe(crypto_aead_aes256gcm_MESSAGEBYTES_MAX + 1, 0); if (vf_tier_thorough()) { gcm_alias_probe(crypto_aead_aes256gcm_MESSAGEBYTES_MAX + 17, 0); gcm_alias_probe(crypto_aead_aes256gcm_MESSAGEBYTES_MAX + 1, 1); } }
    fin();
    vf_sample("crypto_aead_xchacha20poly1305_ietf_encrypt_detached(mlen = 274877906881 = MESSAGEBYTES_MAX+1) on a one-page buffer followed by PROT_NONE -> misuse handler");
    vf_sample("crypto_aead_aes256gcm_encrypt_detached(mlen = 68719476705 = MAX+1) on a 64 GiB aliased buffer -> -1 after wiping c");
    return 0;
}
