/* C20: allocation failure is fail-closed. E-env over allocator answers: every single failure position, every "all from i on",
 * (thorough) every pair, for every affected call; leak / double free / foreign free tracking; each execution in a forked child. */
#define _GNU_SOURCE
#include "common.h"
#include <sodium.h>

static unsigned long long n_eval, n_nontriv, n_exec, n_requests_seen;
static int thorough;

/* ---------------- interposed allocator ---------------- */
#define MAXBLK 256
typedef struct { void *p; size_t len; int kind; int freed; } blk;    /* kind 0 heap, 1 mmap */
static blk BL[MAXBLK]; static int nbl;
static int armed, req_no, fail_single[4], nfail_single, fail_from;    /* fail_from: fail every request >= this (0 = off) */
static int inj_hits, bad_free, double_free, bad_unmap;

static int should_fail(void)
{
    int i; req_no++;
    if (fail_from && req_no >= fail_from) { inj_hits++; return 1; }
    for (i = 0; i < nfail_single; i++) if (fail_single[i] == req_no) { inj_hits++; return 1; }
    return 0;
}
static void track(void *p, size_t len, int kind) { if (nbl < MAXBLK) { BL[nbl].p = p; BL[nbl].len = len; BL[nbl].kind = kind; BL[nbl].freed = 0; nbl++; } }
void *__real_malloc(size_t); void *__real_calloc(size_t, size_t); void __real_free(void *); int __real_posix_memalign(void **, size_t, size_t);
static int inj_errno = ENOMEM;      /* the error an injected failure reports: allocation and mapping calls can fail for other reasons than lack of memory (mmap: EAGAIN with locked-memory limits, EPERM, ENFILE; malloc: any) */
void *__real_mmap(void *, size_t, int, int, int, off_t); int __real_munmap(void *, size_t);
void *__wrap_malloc(size_t n) { void *p; if (!armed) return __real_malloc(n); if (should_fail()) { errno = inj_errno; return NULL; } p = __real_malloc(n); track(p, n, 0); return p; }
void *__wrap_calloc(size_t a, size_t b) { void *p; if (!armed) return __real_calloc(a, b); if (should_fail()) { errno = inj_errno; return NULL; } p = __real_calloc(a, b); track(p, a * b, 0); return p; }
int __wrap_posix_memalign(void **o, size_t al, size_t n) { int r; if (!armed) return __real_posix_memalign(o, al, n); if (should_fail()) return inj_errno == EAGAIN ? ENOMEM : inj_errno;   /* posix_memalign only documents EINVAL / ENOMEM */ r = __real_posix_memalign(o, al, n); if (r == 0) track(*o, n, 0); return r; }
void *__wrap_mmap(void *a, size_t l, int pr, int fl, int fd, off_t off)
{ void *p; if (!armed) return __real_mmap(a, l, pr, fl, fd, off); if (should_fail()) { errno = inj_errno; return MAP_FAILED; } p = __real_mmap(a, l, pr, fl, fd, off); if (p != MAP_FAILED) track(p, l, 1); return p; }
void __wrap_free(void *p)
{
    int i;
    if (p == NULL) return;
    for (i = 0; i < nbl; i++) if (BL[i].p == p && BL[i].kind == 0) { if (BL[i].freed) { double_free++; return; } BL[i].freed = 1; return; /* quarantined: a second free is recognisable */ }
    if (armed) { bad_free++; return; }       /* the call under test frees something it did not allocate */
    __real_free(p);
}
int __wrap_munmap(void *p, size_t l)
{
    int i;
    for (i = 0; i < nbl; i++) if (BL[i].kind == 1 && BL[i].p == p) { if (BL[i].freed) { double_free++; return 0; } if (BL[i].len != l) bad_unmap++; BL[i].freed = 1; return __real_munmap(p, l); }
    if (armed) {   /* sodium_free unmaps base..total: the tracked mapping starts at base */ bad_unmap++; return -1; }
    return __real_munmap(p, l);
}
static int live_blocks(void) { int i, n = 0; for (i = 0; i < nbl; i++) if (!BL[i].freed) n++; return n; }

/* ---------------- scenarios ---------------- */
#define PW "correct horse"
#define PWLEN 13
static char STR_ID[crypto_pwhash_STRBYTES], STR_I[crypto_pwhash_STRBYTES], STR_SC[crypto_pwhash_scryptsalsa208sha256_STRBYTES];
static const unsigned char SALT[32] = { 1,2,3,4,5,6,7,8,9,10,11,12,13,14,15,16,17,18,19,20,21,22,23,24,25,26,27,28,29,30,31,32 };
typedef struct { const char *name; int kind; /* 0 raw hash (obs = 32 bytes), 1 str producer (obs = string), 2 verify-correct, 3 verify-wrong, 4 needs_rehash, 5 allocator */
                 int (*run)(unsigned char *obs); } scen;
static int s_pw_id(unsigned char *o) { return crypto_pwhash(o, 32, PW, PWLEN, SALT, 2, 65536, crypto_pwhash_ALG_ARGON2ID13); }
static int s_pw_i(unsigned char *o) { return crypto_pwhash(o, 32, PW, PWLEN, SALT, 3, 65536, crypto_pwhash_ALG_ARGON2I13); }
static int s_a2id(unsigned char *o) { return crypto_pwhash_argon2id(o, 64, PW, PWLEN, SALT, 1, 8192, crypto_pwhash_argon2id_ALG_ARGON2ID13); }
static int s_a2i(unsigned char *o) { return crypto_pwhash_argon2i(o, 16, PW, PWLEN, SALT, 3, 200000, crypto_pwhash_argon2i_ALG_ARGON2I13); }
/* memory sizes in different allocation classes (an allocator may switch strategy - huge pages, direct mappings - above a threshold) */
static int s_pw_id_16m(unsigned char *o) { return crypto_pwhash(o, 32, PW, PWLEN, SALT, 1, 16U << 20, crypto_pwhash_ALG_ARGON2ID13); }
static int s_pw_i_12m(unsigned char *o) { return crypto_pwhash(o, 32, PW, PWLEN, SALT, 3, 12U << 20, crypto_pwhash_ALG_ARGON2I13); }
static int s_pw_id_2m(unsigned char *o) { return crypto_pwhash(o, 32, PW, PWLEN, SALT, 1, 2U << 20, crypto_pwhash_ALG_ARGON2ID13); }
static int s_pw_id_32m(unsigned char *o) { return crypto_pwhash(o, 32, PW, PWLEN, SALT, 1, 32U << 20, crypto_pwhash_ALG_ARGON2ID13); }
static int s_str_16m(unsigned char *o) { return crypto_pwhash_str((char *) o, PW, PWLEN, 1, 16U << 20); }
static int s_pw_id_long(unsigned char *o) { static unsigned char big[300]; int r = crypto_pwhash(big, 200, PW, PWLEN, SALT, 1, 8192, crypto_pwhash_ALG_ARGON2ID13); memcpy(o, big, 64); return r; }
static int s_pw_i_long(unsigned char *o) { static unsigned char big[300]; int r = crypto_pwhash(big, 129, PW, PWLEN, SALT, 3, 8192, crypto_pwhash_ALG_ARGON2I13); memcpy(o, big, 64); return r; }
static int s_sc_long(unsigned char *o) { static unsigned char big[300]; int r = crypto_pwhash_scryptsalsa208sha256(big, 200, PW, PWLEN, SALT, 32768, 16777216); memcpy(o, big, 64); return r; }
static int s_str(unsigned char *o) { return crypto_pwhash_str((char *) o, PW, PWLEN, 2, 65536); }
static int s_str_i(unsigned char *o) { return crypto_pwhash_str_alg((char *) o, PW, PWLEN, 3, 65536, crypto_pwhash_ALG_ARGON2I13); }
static int s_a2id_str(unsigned char *o) { return crypto_pwhash_argon2id_str((char *) o, PW, PWLEN, 1, 8192); }
static int s_a2i_str(unsigned char *o) { return crypto_pwhash_argon2i_str((char *) o, PW, PWLEN, 3, 8192); }
static int s_vfy_id(unsigned char *o) { (void) o; return crypto_pwhash_str_verify(STR_ID, PW, PWLEN); }
static int s_vfy_i(unsigned char *o) { (void) o; return crypto_pwhash_str_verify(STR_I, PW, PWLEN); }
static int s_vfy_id2(unsigned char *o) { (void) o; return crypto_pwhash_argon2id_str_verify(STR_ID, PW, PWLEN); }
static int s_vfy_i2(unsigned char *o) { (void) o; return crypto_pwhash_argon2i_str_verify(STR_I, PW, PWLEN); }
static int s_vfyw_id(unsigned char *o) { (void) o; return crypto_pwhash_str_verify(STR_ID, "wrong horse..", PWLEN); }
static int s_vfyw_i(unsigned char *o) { (void) o; return crypto_pwhash_str_verify(STR_I, "wrong horse..", PWLEN); }
static int s_nr_id(unsigned char *o) { (void) o; return crypto_pwhash_str_needs_rehash(STR_ID, 2, 65536); }
static int s_nr_i(unsigned char *o) { (void) o; return crypto_pwhash_str_needs_rehash(STR_I, 3, 65536); }
static int s_nr_id2(unsigned char *o) { (void) o; return crypto_pwhash_argon2id_str_needs_rehash(STR_ID, 9, 1 << 20); }
static int s_nr_i2(unsigned char *o) { (void) o; return crypto_pwhash_argon2i_str_needs_rehash(STR_I, 3, 65536); }
static int s_sc(unsigned char *o) { return crypto_pwhash_scryptsalsa208sha256(o, 32, PW, PWLEN, SALT, 32768, 16777216); }
static int s_sc2(unsigned char *o) { return crypto_pwhash_scryptsalsa208sha256(o, 32, PW, PWLEN, SALT, 65536, 33554432); }
static int s_sc_ll(unsigned char *o) { return crypto_pwhash_scryptsalsa208sha256_ll((const uint8_t *) PW, PWLEN, SALT, 32, 1024, 8, 2, o, 32); }
static int s_sc_str(unsigned char *o) { return crypto_pwhash_scryptsalsa208sha256_str((char *) o, PW, PWLEN, 32768, 16777216); }
static int s_sc_vfy(unsigned char *o) { (void) o; return crypto_pwhash_scryptsalsa208sha256_str_verify(STR_SC, PW, PWLEN); }
static int s_sc_vfyw(unsigned char *o) { (void) o; return crypto_pwhash_scryptsalsa208sha256_str_verify(STR_SC, "wrong horse..", PWLEN); }
static int s_sc_nr(unsigned char *o) { (void) o; return crypto_pwhash_scryptsalsa208sha256_str_needs_rehash(STR_SC, 32768, 16777216); }
/* the same verifications with a caller-installed random source that answers with the stored hash string itself (the worst answer for code that
 * pre-fills its comparison buffer with random bytes "so that a failure cannot match") */
static const char *adv_name(void) { return "verif-adversarial"; }
static uint32_t adv_random(void) { return 0; }
static const char *adv_src = STR_SC;
static void adv_buf(void * const b, const size_t n) { size_t i, l = strlen(adv_src) + 1; for (i = 0; i < n; i++) ((unsigned char *) b)[i] = (unsigned char) adv_src[i % l]; }
static struct randombytes_implementation adv_impl = { adv_name, adv_random, NULL, NULL, adv_buf, NULL };
static int with_adv(const char *src, int (*f)(void)) { int r; adv_src = src; randombytes_set_implementation(&adv_impl); r = f(); randombytes_set_implementation(&randombytes_sysrandom_implementation); return r; }
static int f_sc_vfyw(void) { return crypto_pwhash_scryptsalsa208sha256_str_verify(STR_SC, "wrong horse..", PWLEN); }
static int f_id_vfyw(void) { return crypto_pwhash_str_verify(STR_ID, "wrong horse..", PWLEN); }
static int f_i_vfyw(void) { return crypto_pwhash_str_verify(STR_I, "wrong horse..", PWLEN); }
static int s_sc_vfyw_adv(unsigned char *o) { (void) o; return with_adv(STR_SC, f_sc_vfyw); }
static int s_id_vfyw_adv(unsigned char *o) { (void) o; return with_adv(STR_ID, f_id_vfyw); }
static int s_i_vfyw_adv(unsigned char *o) { (void) o; return with_adv(STR_I, f_i_vfyw); }
static void *held;
static int s_malloc(unsigned char *o) { (void) o; held = sodium_malloc(100); return held ? 0 : -1; }
static int s_allocarray(unsigned char *o) { (void) o; held = sodium_allocarray(33, 129); return held ? 0 : -1; }
static const scen SC[] = {
    { "crypto_pwhash(argon2id)", 0, s_pw_id }, { "crypto_pwhash(argon2i)", 0, s_pw_i }, { "crypto_pwhash_argon2id", 0, s_a2id }, { "crypto_pwhash_argon2i", 0, s_a2i },
    { "crypto_pwhash(argon2id,16MiB)", 0, s_pw_id_16m }, { "crypto_pwhash(argon2i,12MiB)", 0, s_pw_i_12m }, { "crypto_pwhash(argon2id,2MiB)", 0, s_pw_id_2m }, { "crypto_pwhash(argon2id,32MiB)", 0, s_pw_id_32m },
    { "crypto_pwhash_str(16MiB)", 1, s_str_16m },
    { "crypto_pwhash(argon2id,outlen=200)", 0, s_pw_id_long }, { "crypto_pwhash(argon2i,outlen=129)", 0, s_pw_i_long }, { "crypto_pwhash_scryptsalsa208sha256(outlen=200)", 0, s_sc_long },
    { "crypto_pwhash_str", 1, s_str }, { "crypto_pwhash_str_alg(argon2i)", 1, s_str_i }, { "crypto_pwhash_argon2id_str", 1, s_a2id_str }, { "crypto_pwhash_argon2i_str", 1, s_a2i_str },
    { "crypto_pwhash_str_verify(argon2id,correct)", 2, s_vfy_id }, { "crypto_pwhash_str_verify(argon2i,correct)", 2, s_vfy_i },
    { "crypto_pwhash_argon2id_str_verify(correct)", 2, s_vfy_id2 }, { "crypto_pwhash_argon2i_str_verify(correct)", 2, s_vfy_i2 },
    { "crypto_pwhash_str_verify(argon2id,wrong)", 3, s_vfyw_id }, { "crypto_pwhash_str_verify(argon2i,wrong)", 3, s_vfyw_i },
    { "crypto_pwhash_str_needs_rehash(argon2id)", 4, s_nr_id }, { "crypto_pwhash_str_needs_rehash(argon2i)", 4, s_nr_i },
    { "crypto_pwhash_argon2id_str_needs_rehash(other-params)", 4, s_nr_id2 }, { "crypto_pwhash_argon2i_str_needs_rehash", 4, s_nr_i2 },
    { "crypto_pwhash_scryptsalsa208sha256", 0, s_sc }, { "crypto_pwhash_scryptsalsa208sha256(2x)", 0, s_sc2 }, { "crypto_pwhash_scryptsalsa208sha256_ll", 0, s_sc_ll },
    { "crypto_pwhash_scryptsalsa208sha256_str", 1, s_sc_str }, { "crypto_pwhash_scryptsalsa208sha256_str_verify(correct)", 2, s_sc_vfy },
    { "crypto_pwhash_scryptsalsa208sha256_str_verify(wrong)", 3, s_sc_vfyw }, { "crypto_pwhash_scryptsalsa208sha256_str_needs_rehash", 4, s_sc_nr },
    { "crypto_pwhash_scryptsalsa208sha256_str_verify(wrong, random source answers with the stored string)", 3, s_sc_vfyw_adv },
    { "crypto_pwhash_str_verify(argon2id, wrong, random source answers with the stored string)", 3, s_id_vfyw_adv },
    { "crypto_pwhash_str_verify(argon2i, wrong, random source answers with the stored string)", 3, s_i_vfyw_adv },
    { "sodium_malloc", 5, s_malloc }, { "sodium_allocarray", 5, s_allocarray } };
#define NSC ((int) (sizeof SC / sizeof SC[0]))

/* executes scenario s with the given failure script inside THIS process (called in a forked child); prints FAIL lines itself */
static int run_script(const scen *S, const int *singles, int ns, int from, int *nreq_out)
{
    unsigned char base[256], obs[256]; int r0, r, i; char key[200], scr[64] = ""; int base_expect_rehash = 0;
    /* 1. fault-free baseline */
    memset(base, 0, sizeof base); nbl = 0; req_no = 0; nfail_single = 0; fail_from = 0; inj_hits = bad_free = double_free = bad_unmap = 0;
    armed = 1; r0 = S->run(base); armed = 0;
    if (nreq_out) *nreq_out = req_no;
    if (S->kind == 5 && held) { sodium_free(held); held = NULL; }
    if ((S->kind == 0 || S->kind == 1 || S->kind == 2 || S->kind == 5) && r0 != 0) { snprintf(key, sizeof key, "alloc-fault/%s/baseline", S->name); vf_fail(key, "fault-free run failed (%d)", r0); return 0; }
    if (S->kind == 3 && r0 == 0) { snprintf(key, sizeof key, "alloc-fault/%s/baseline", S->name); vf_fail(key, "wrong password verified"); return 0; }
    if (S->kind == 4) base_expect_rehash = r0;
    if (live_blocks() || bad_free || double_free) { snprintf(key, sizeof key, "alloc-fault/%s/baseline", S->name); vf_fail(key, "fault-free run: %d live blocks, %d foreign frees, %d double frees", live_blocks(), bad_free, double_free); }
    if (ns == 0 && from == 0) return 1;
    /* 2. the faulty run */
    for (i = 0; i < ns; i++) snprintf(scr + strlen(scr), sizeof scr - strlen(scr), "%s%d", i ? "," : "", singles[i]);
    if (from) snprintf(scr + strlen(scr), sizeof scr - strlen(scr), "%d..", from);
    snprintf(key, sizeof key, "alloc-fault/%s/fail=%s%s", S->name, scr, inj_errno == ENOMEM ? "" : inj_errno == EAGAIN ? "/errno=EAGAIN" : inj_errno == EPERM ? "/errno=EPERM" : inj_errno == ENFILE ? "/errno=ENFILE" : "/errno=EINVAL");
    memset(obs, 0, sizeof obs); if (S->kind == 0) memset(obs, 0x5a, 64);
    nbl = 0; req_no = 0; nfail_single = ns; memcpy(fail_single, singles, sizeof(int) * (size_t) ns); fail_from = from; inj_hits = bad_free = double_free = bad_unmap = 0;
    errno = 0; armed = 1; r = S->run(obs); armed = 0; nfail_single = 0; fail_from = 0;
    if (inj_hits == 0) return 1;         /* the script named a request that does not occur: nothing injected */
    printf("SAMPLE %s: allocation request(s) %s refused -> returned %d, %d live blocks afterwards\n", S->name, scr, r, live_blocks());
    if (r == 0) {
        if (S->kind == 2 || S->kind == 3) vf_fail(key, "string verification reported a MATCH although an allocation failed");
        else if (S->kind == 4) { if (r != base_expect_rehash) vf_fail(key, "needs_rehash returned 0 (up to date) after an allocation failure; fault-free answer is %d", base_expect_rehash); }
        else vf_fail(key, "call returned success although allocation request(s) %s failed", scr);
    }
    if (S->kind == 4 && r != -1 && r != base_expect_rehash) vf_fail(key, "needs_rehash returned %d after an allocation failure (fault-free answer %d, error is -1)", r, base_expect_rehash);
    if (S->kind == 0 && r != 0 && memcmp(obs, base, 16) == 0) vf_fail(key, "the key was written to the output although the call failed");
    if (S->kind == 1 && r != 0 && obs[0] != 0 && strcmp((char *) obs, (char *) base) != 0) {
        int v = S->run == s_sc_str ? crypto_pwhash_scryptsalsa208sha256_str_verify((char *) obs, PW, PWLEN) : crypto_pwhash_str_verify((char *) obs, PW, PWLEN);
        if (v == 0) vf_fail(key, "a usable hash string was left in the output although the call failed"); }
    if (S->kind == 1 && r != 0 && strcmp((char *) obs, (char *) base) == 0 && base[0]) vf_fail(key, "the hash string was produced although the call reported failure");
    if (S->kind == 5 && r == 0) { sodium_free(held); held = NULL; }
    if (live_blocks()) vf_fail(key, "%d block(s) still allocated after the failed call (leak)", live_blocks());
    if (double_free) vf_fail(key, "%d double free(s) on the error path", double_free);
    if (bad_free || bad_unmap) vf_fail(key, "%d foreign free(s), %d bad munmap(s) on the error path", bad_free, bad_unmap);
    /* 3. the library is not poisoned: the fault-free call still gives the baseline answer */
    memset(obs, 0, sizeof obs); nbl = 0; req_no = 0; armed = 1; r = S->run(obs); armed = 0;
    if (S->kind == 5 && held) { sodium_free(held); held = NULL; }
    if (r != r0 || ((S->kind == 0) && memcmp(obs, base, 64))) vf_fail(key, "fault-free call after the failure differs from the baseline (ret %d vs %d)", r, r0);
    return 1;
}

static int child_exec(const scen *S, const int *singles, int ns, int from, int *nreq)
{
    int pfd[2], st; pid_t pid;
    if (pipe(pfd)) exit(2);
    fflush(stdout); pid = fork();
    if (pid == 0) { int n = 0; close(pfd[0]); alarm(120); run_script(S, singles, ns, from, &n); if (write(pfd[1], &n, sizeof n) < 0) _exit(3); fflush(stdout); _exit(0); }
    close(pfd[1]); { int n = -1; if (read(pfd[0], &n, sizeof n) == sizeof n && nreq) *nreq = n; } close(pfd[0]);
    waitpid(pid, &st, 0); n_exec++; n_eval++; n_nontriv++;
    if (!(WIFEXITED(st) && WEXITSTATUS(st) == 0)) {
        char key[200], scr[48] = ""; int i; for (i = 0; i < ns; i++) snprintf(scr + strlen(scr), sizeof scr - strlen(scr), "%s%d", i ? "," : "", singles[i]);
        if (from) snprintf(scr + strlen(scr), sizeof scr - strlen(scr), "%d..", from);
        snprintf(key, sizeof key, "alloc-fault/%s/fail=%s%s", S->name, scr[0] ? scr : "none", inj_errno == ENOMEM ? "" : inj_errno == EAGAIN ? "/errno=EAGAIN" : inj_errno == EPERM ? "/errno=EPERM" : inj_errno == ENFILE ? "/errno=ENFILE" : "/errno=EINVAL");
        vf_fail(key, "process crashed or hung (wait status %#x) when allocation request(s) %s failed", st, scr[0] ? scr : "none");
    }
    return st;
}

static void do_scen(long si)
{
    const scen *S = &SC[si]; int n = 0, i, j, k, one[3];
    child_exec(S, NULL, 0, 0, &n);
    if (n < 0) n = 0;
    n_requests_seen += (unsigned long long) n;
    printf("INFO %s: %d allocation requests\n", S->name, n);
    for (i = 1; i <= n; i++) { one[0] = i; child_exec(S, one, 1, 0, NULL); child_exec(S, NULL, 0, i, NULL); }
    { static const int ERRS[4] = { EAGAIN, EPERM, ENFILE, EINVAL }; int e;      /* every single position again with each other error code */
      for (e = 0; e < 4; e++) { inj_errno = ERRS[e]; for (i = 1; i <= n; i++) { one[0] = i; child_exec(S, one, 1, 0, NULL); } }
      inj_errno = ENOMEM; }
    for (i = 1; i <= n; i++) for (j = i + 1; j <= n; j++) { one[0] = i; one[1] = j; child_exec(S, one, 2, 0, NULL); }
    if (thorough) for (i = 1; i <= n; i++) for (j = i + 1; j <= n; j++) for (k = j + 1; k <= n; k++) { one[0] = i; one[1] = j; one[2] = k; child_exec(S, one, 3, 0, NULL); }
}
static void fin(void) { vf_stat("evaluations", n_eval); vf_stat("nontrivial", n_nontriv); vf_stat("executions", n_exec); vf_stat("allocation_requests", n_requests_seen); n_eval = n_nontriv = n_exec = n_requests_seen = 0; }

int main(void)
{
    vf_init_seed(); thorough = vf_tier_thorough();
    if (sodium_init() < 0) return 2;
    if (crypto_pwhash_str(STR_ID, PW, PWLEN, 2, 65536) || crypto_pwhash_str_alg(STR_I, PW, PWLEN, 3, 65536, crypto_pwhash_ALG_ARGON2I13) ||
        crypto_pwhash_scryptsalsa208sha256_str(STR_SC, PW, PWLEN, 32768, 16777216)) return 2;
    printf("INFO features avx512f=%d avx2=%d ssse3=%d sse2=%d\n", sodium_runtime_has_avx512f(), sodium_runtime_has_avx2(), sodium_runtime_has_ssse3(), sodium_runtime_has_sse2());
    vf_parallel(NSC < 16 ? NSC : 16, 0, NSC, do_scen, fin);
    vf_sample("crypto_pwhash_str_verify(argon2id, correct password): 8 allocation requests; request 2 alone refused; requests 2.. refused; pairs (i,j)");
    vf_sample("crypto_pwhash_scryptsalsa208sha256: mmap of the scratch region refused -> -1, output untouched, no block left allocated");
    vf_sample("sodium_malloc(100): the single mmap refused -> NULL");
    return 0;
}
