/* C09: secretstream as a state graph. Explicit-state exploration of all operation sequences up to a depth bound on the real
 * push/pull/rekey code, with an abstract ideal-stream model (event logs) and an independent model of the key/nonce evolution. */
#include "common.h"
#include <sodium.h>
#include "ref_stream.h"

typedef crypto_secretstream_xchacha20poly1305_state sstate;
typedef unsigned long long ull;
#define TAG_MESSAGE 0
#define TAG_PUSH 1
#define TAG_REKEY 2
#define TAG_FINAL 3
#define MAXD 8
#define EV_REKEY 100

static unsigned long long n_states, n_trans, n_fail_selfloops, n_succ, n_eval, n_nontriv;
static int DEPTH;

/* scripted RNG (header bytes) */
static unsigned char rng_fill = 0x11;
static const char *rng_name(void) { return "verif-script"; }
static void rng_buf(void *const buf, const size_t size) { size_t i; for (i = 0; i < size; i++) ((unsigned char *) buf)[i] = (unsigned char) (rng_fill + 3 * i); }
static uint32_t rng_random(void) { return 0x01020304; }
static struct randombytes_implementation rng_impl = { rng_name, rng_random, NULL, NULL, rng_buf, NULL };

/* ---- independent model of the (k, nonce) evolution ---- */
typedef struct { unsigned char k[32], nonce[12]; } mstate;
static void m_rekey(mstate *s)
{
    unsigned char buf[40];
    memcpy(buf, s->k, 32); memcpy(buf + 32, s->nonce + 4, 8);
    ref_chacha20_ietf_xor(buf, buf, 40, s->k, s->nonce, 0);
    memcpy(s->k, buf, 32); memcpy(s->nonce + 4, buf + 32, 8);
    s->nonce[0] = 1; s->nonce[1] = s->nonce[2] = s->nonce[3] = 0;
}
static void m_after_chunk(mstate *s, const unsigned char *mac, unsigned char tag)
{
    int i; unsigned c = 1;
    for (i = 0; i < 8; i++) s->nonce[4 + i] ^= mac[i];
    for (i = 0; i < 4; i++) { c += s->nonce[i]; s->nonce[i] = (unsigned char) c; c >>= 8; }
    if ((tag & TAG_REKEY) || (s->nonce[0] | s->nonce[1] | s->nonce[2] | s->nonce[3]) == 0) m_rekey(s);
}

/* ---- node ---- */
typedef struct { unsigned char bytes[17 + 17]; size_t len; size_t mlen; int has_ad; unsigned char tag; } chunk;
typedef struct {
    sstate push, pull; mstate mpush;
    int npl, nql; unsigned char plog[MAXD + 1], qlog[MAXD + 1];   /* pusher / puller event logs: chunk index or EV_REKEY */
    int nchunks; chunk ch[MAXD + 1];
    int last_accepted;                                             /* chunk index last accepted by the puller, -1 none */
    char hist[96];
} node;

static const unsigned char MSG[17] = { 'v','e','r','i','f','-','s','e','c','r','e','t','s','t','r','e','m' };
static const unsigned char AD[5] = { 1, 2, 3, 4, 5 }, AD2[5] = { 1, 2, 3, 4, 6 };
static chunk foreign_hdr[2], foreign_key[2];    /* first chunk (shape 0/1) of a stream under the same key/other header, and under another key */
static unsigned char KEY[32];

static int log_is_prefix_plus(const node *n, int c)   /* qlog ++ [c] is a prefix of plog */
{
    int i;
    if (n->nql + 1 > n->npl) return 0;
    for (i = 0; i < n->nql; i++) if (n->qlog[i] != n->plog[i]) return 0;
    return n->plog[n->nql] == c;
}
static int puller_next_chunk(const node *n)       /* index of the chunk the pusher produced right after the puller's position, or -1 */
{
    int i, cnt = 0;
    for (i = 0; i < n->nql; i++) if (n->qlog[i] != EV_REKEY) cnt++;
    return cnt < n->nchunks ? cnt : -1;
}

static void fail_node(const node *n, const char *op, const char *fmt, ...)
{
    char key[200], msg[300]; va_list ap;
    va_start(ap, fmt); vsnprintf(msg, sizeof msg, fmt, ap); va_end(ap);
    snprintf(key, sizeof key, "secretstream-graph/hist=%s/op=%s", n->hist[0] ? n->hist : "-", op);
    vf_fail(key, "%s", msg);
}

/* try one pull; returns 1 if the state changed (success) */
static int do_pull(node *n, const char *opname, const unsigned char *in, size_t inlen, const unsigned char *ad, size_t adlen,
                   int expect_ok, int cidx)
{
    unsigned char out[64], tg = 0x55; ull ml = 4242; sstate before = n->pull; int r, i;
    /* accepted pulls rotate through the four forms of the optional outputs (both given, tag_p NULL, mlen_p NULL, both NULL) as a function of
     * the history, so that every tag kind is pulled in every form somewhere in the graph; the state evolution must not depend on the form */
    int form = expect_ok ? (cidx + n->nql + n->npl) & 3 : 0;
    memset(out, 0xA5, sizeof out);
    r = crypto_secretstream_xchacha20poly1305_pull(&n->pull, out + 8, (form & 2) ? NULL : &ml, (form & 1) ? NULL : &tg, in, inlen, ad, adlen);
    n_trans++;
    if (expect_ok) {
        const chunk *c = &n->ch[cidx];
        if (r != 0) { fail_node(n, opname, "genuine next chunk %d rejected", cidx); return 0; }
        if (form & 2) ml = c->mlen; if (form & 1) tg = c->tag;
        if (ml != c->mlen || memcmp(out + 8, MSG, c->mlen) || tg != c->tag) fail_node(n, opname, "pull returned wrong message/tag/length (mlen %llu tag %u)", ml, tg);
        if (out[7] != 0xA5 || out[8 + c->mlen] != 0xA5) fail_node(n, opname, "pull wrote outside the message");
        n->qlog[n->nql++] = (unsigned char) cidx; n->last_accepted = cidx;
        n_succ++;
        return 1;
    }
    n_fail_selfloops++;
    if (r == 0) { fail_node(n, opname, "pull accepted a chunk that is not the next one of the pushed sequence (returned tag %u, mlen %llu)", tg, ml); n->pull = before; return 1; }
    if (ml != 0) fail_node(n, opname, "rejected pull reported mlen %llu", ml);
    if (tg != 0xff) fail_node(n, opname, "rejected pull left tag %u", tg);
    for (i = 0; i < (int) sizeof out; i++) if (out[i] != 0xA5) { fail_node(n, opname, "rejected pull wrote to the output buffer"); break; }
    if (memcmp(&before, &n->pull, sizeof before)) { fail_node(n, opname, "rejected pull changed the puller state"); n->pull = before; }
    return 0;
}

static void explore(const node *n, int depth);

static void step_push(const node *n0, int depth, int tag, int shape)
{
    node n = *n0; chunk *c = &n.ch[n.nchunks]; unsigned char want[40]; ull ol = 0; size_t mlen = shape ? 17 : 0, adlen = shape ? 5 : 0; char op[24];
    snprintf(op, sizeof op, "push(t%d,s%d)", tag, shape);
    memset(c->bytes, 0xA5, sizeof c->bytes);
    { int nolen = (n.npl + n.nchunks + tag) & 1;       /* every other push passes clen_p == NULL (optional output) */
      if (crypto_secretstream_xchacha20poly1305_push(&n.push, c->bytes, nolen ? NULL : &ol, mlen ? MSG : NULL, mlen, adlen ? AD : NULL, adlen, (unsigned char) tag) != 0) fail_node(&n, op, "push failed");
      if (nolen) ol = mlen + 17; }
    n_trans++;
    c->len = mlen + 17; c->mlen = mlen; c->has_ad = shape; c->tag = (unsigned char) tag;
    if (ol != c->len) fail_node(&n, op, "push reported length %llu", ol);
    ref_secretstream_chunk(want, MSG, mlen, AD, adlen, (uint8_t) tag, n.mpush.k, n.mpush.nonce);
    if (memcmp(want, c->bytes, c->len)) fail_node(&n, op, "chunk differs from the documented ChaCha20-Poly1305 construction: got %s want %s", vf_hex(c->bytes, c->len), vf_hex(want, c->len));
    if (c->len < sizeof c->bytes && c->bytes[c->len] != 0xA5) fail_node(&n, op, "push wrote past mlen+ABYTES");
    m_after_chunk(&n.mpush, want + 1 + mlen, (unsigned char) tag);
    if (memcmp(n.push.k, n.mpush.k, 32) || memcmp(n.push.nonce, n.mpush.nonce, 12)) fail_node(&n, op, "pusher state differs from the model after the chunk (key/nonce evolution)");
    n.plog[n.npl++] = (unsigned char) n.nchunks; n.nchunks++;
    if ((tag & TAG_REKEY) == 0) { /* automatic rekey on counter wrap is part of the chunk event in both logs */ }
    snprintf(n.hist + strlen(n.hist), sizeof n.hist - strlen(n.hist), "P%d%d.", tag, shape);
    n_states++;
    if (depth == 3 && tag == 3) VF_SAMPLE_CASE(4, "history %s (P<tag><shape> = push, L = pull of the genuine next chunk, RP/RL = explicit rekey of pusher/puller): last chunk %s", n.hist, vf_hex(c->bytes, c->len));
    explore(&n, depth + 1);
}

static void explore(const node *n0, int depth)
{
    int tag, shape, nx, la; node n;
    /* ---- pulls: every variant is tried at every node; rejected ones are self-loops and do not consume depth ---- */
    n = *n0; nx = puller_next_chunk(&n); la = n.last_accepted;
    if (nx >= 0) {
        const chunk *c = &n.ch[nx]; unsigned char t[40]; int ok = log_is_prefix_plus(&n, nx);
        const unsigned char *ad = c->has_ad ? AD : NULL; size_t adl = c->has_ad ? 5 : 0;
        /* tampered variants first (must all be rejected and leave the state untouched) */
        if (c->has_ad) { do_pull(&n, "pull(next,ad-changed)", c->bytes, c->len, AD2, 5, 0, nx); do_pull(&n, "pull(next,ad-removed)", c->bytes, c->len, NULL, 0, 0, nx); do_pull(&n, "pull(next,ad-truncated)", c->bytes, c->len, AD, 4, 0, nx); }
        else do_pull(&n, "pull(next,ad-added)", c->bytes, c->len, AD, 5, 0, nx);
        do_pull(&n, "pull(next,truncated-1)", c->bytes, c->len - 1, ad, adl, 0, nx);
        do_pull(&n, "pull(next,truncated-to-16)", c->bytes, 16, ad, adl, 0, nx);
        do_pull(&n, "pull(next,truncated-to-0)", c->bytes, 0, ad, adl, 0, nx);
        memcpy(t, c->bytes, c->len); t[c->len] = 0; do_pull(&n, "pull(next,extended+1)", t, c->len + 1, ad, adl, 0, nx);
        memcpy(t, c->bytes, c->len); t[0] ^= 1; do_pull(&n, "pull(next,tagbyte-flip)", t, c->len, ad, adl, 0, nx);
        memcpy(t, c->bytes, c->len); t[0] ^= 2; do_pull(&n, "pull(next,tagbyte-flip2)", t, c->len, ad, adl, 0, nx);
        if (c->mlen) { memcpy(t, c->bytes, c->len); t[1] ^= 0x80; do_pull(&n, "pull(next,ct-flip)", t, c->len, ad, adl, 0, nx); }
        memcpy(t, c->bytes, c->len); t[c->len - 1] ^= 1; do_pull(&n, "pull(next,mac-flip)", t, c->len, ad, adl, 0, nx);
        if (nx + 1 < n.nchunks) { const chunk *d = &n.ch[nx + 1]; do_pull(&n, "pull(skip-ahead)", d->bytes, d->len, d->has_ad ? AD : NULL, d->has_ad ? 5 : 0, 0, nx + 1); }
        if (nx + 2 < n.nchunks) { const chunk *d = &n.ch[nx + 2]; do_pull(&n, "pull(skip-ahead-2)", d->bytes, d->len, d->has_ad ? AD : NULL, d->has_ad ? 5 : 0, 0, nx + 2); }
        if (!ok) do_pull(&n, "pull(next,desynchronised)", c->bytes, c->len, ad, adl, 0, nx);
    }
    if (la >= 0) { const chunk *d = &n.ch[la]; do_pull(&n, "pull(replay-last)", d->bytes, d->len, d->has_ad ? AD : NULL, d->has_ad ? 5 : 0, 0, la); }
    if (la > 0) { const chunk *d = &n.ch[0]; do_pull(&n, "pull(replay-first)", d->bytes, d->len, d->has_ad ? AD : NULL, d->has_ad ? 5 : 0, 0, 0); }
    for (shape = 0; shape < 2; shape++) {
        do_pull(&n, "pull(foreign-header)", foreign_hdr[shape].bytes, foreign_hdr[shape].len, shape ? AD : NULL, shape ? 5 : 0, 0, -1);
        do_pull(&n, "pull(foreign-key)", foreign_key[shape].bytes, foreign_key[shape].len, shape ? AD : NULL, shape ? 5 : 0, 0, -1);
    }
    if (depth >= DEPTH) return;
    /* ---- state-changing transitions ---- */
    if (nx >= 0 && log_is_prefix_plus(n0, nx)) {      /* genuine pull */
        const chunk *c; n = *n0; c = &n.ch[nx];
        if (do_pull(&n, "pull(next)", c->bytes, c->len, c->has_ad ? AD : NULL, c->has_ad ? 5 : 0, 1, nx)) {
            /* both sides must now hold identical states iff their logs are equal */
            if (n.npl == n.nql && memcmp(n.plog, n.qlog, (size_t) n.npl) == 0 && memcmp(&n.push, &n.pull, sizeof n.push) != 0)
                fail_node(&n, "pull(next)", "pusher and puller states differ although the puller consumed the whole pushed sequence");
            snprintf(n.hist + strlen(n.hist), sizeof n.hist - strlen(n.hist), "L.");
            n_states++; explore(&n, depth + 1);
        }
    }
    for (tag = 0; tag < 4; tag++) for (shape = 0; shape < 2; shape++) step_push(n0, depth, tag, shape);
    n = *n0; crypto_secretstream_xchacha20poly1305_rekey(&n.push); m_rekey(&n.mpush); n_trans++;
    if (memcmp(n.push.k, n.mpush.k, 32) || memcmp(n.push.nonce, n.mpush.nonce, 12)) fail_node(&n, "rekey(pusher)", "explicit rekey differs from the model");
    n.plog[n.npl++] = EV_REKEY; snprintf(n.hist + strlen(n.hist), sizeof n.hist - strlen(n.hist), "RP."); n_states++; explore(&n, depth + 1);
    n = *n0; crypto_secretstream_xchacha20poly1305_rekey(&n.pull); n_trans++;
    n.qlog[n.nql++] = EV_REKEY; snprintf(n.hist + strlen(n.hist), sizeof n.hist - strlen(n.hist), "RL."); n_states++; explore(&n, depth + 1);
}

static void set_counter(unsigned char *nonce, uint32_t c) { nonce[0] = (unsigned char) c; nonce[1] = (unsigned char) (c >> 8); nonce[2] = (unsigned char) (c >> 16); nonce[3] = (unsigned char) (c >> 24); }

/* root for start counter index sc (0: fresh, 1..3: 2^32 - sc) and first transition index ft (work partition) */
#define NROOT 8
static node ROOT[NROOT];
/* start counters: fresh (1), the three values before the 32-bit wrap, and values just before each byte of the counter carries
 * (the automatic rekey must happen at the wrap to zero only, not when some of the bytes are zero) */
static const uint32_t START_CTR[NROOT] = { 1, 0xffffffffu, 0xfffffffeu, 0xfffffffdu, 0x000000feu, 0x0000fffeu, 0x00fffffeu, 0x7ffffffeu };
static void make_roots(void)
{
    int sc; unsigned char hdr[24], want_hdr[24], k2[32]; sstate s2; ull ol; int shape;
    vf_pat(KEY, 32, PAT_R1, 501);
    for (sc = 0; sc < NROOT; sc++) {
        node *n = &ROOT[sc]; memset(n, 0, sizeof *n); n->last_accepted = -1;
        rng_fill = 0x11; rng_buf(want_hdr, 24);
        crypto_secretstream_xchacha20poly1305_init_push(&n->push, hdr, KEY);
        if (memcmp(hdr, want_hdr, 24)) vf_fail("secretstream-init/header", "header is not the bytes served by the random source");
        ref_hchacha20(n->mpush.k, hdr, KEY, NULL); memset(n->mpush.nonce, 0, 12); n->mpush.nonce[0] = 1; memcpy(n->mpush.nonce + 4, hdr + 16, 8);
        if (memcmp(n->push.k, n->mpush.k, 32) || memcmp(n->push.nonce, n->mpush.nonce, 12)) vf_fail("secretstream-init/state", "init_push state differs from HChaCha20(k, header[0:16]) / counter 1 / header[16:24]");
        crypto_secretstream_xchacha20poly1305_init_pull(&n->pull, hdr, KEY);
        if (memcmp(&n->pull, &n->push, sizeof n->pull)) vf_fail("secretstream-init/pull", "init_pull state differs from init_push state");
        if (sc) { uint32_t c = START_CTR[sc]; set_counter(n->push.nonce, c); set_counter(n->pull.nonce, c); set_counter(n->mpush.nonce, c); if (sc < 4) snprintf(n->hist, sizeof n->hist, "C-%d.", sc); else snprintf(n->hist, sizeof n->hist, "C=%x.", (unsigned) c); }
    }
    /* foreign chunks */
    for (shape = 0; shape < 2; shape++) {
        rng_fill = 0x77; crypto_secretstream_xchacha20poly1305_init_push(&s2, hdr, KEY);
        crypto_secretstream_xchacha20poly1305_push(&s2, foreign_hdr[shape].bytes, &ol, shape ? MSG : NULL, shape ? 17 : 0, shape ? AD : NULL, shape ? 5 : 0, 0); foreign_hdr[shape].len = (size_t) ol;
        vf_pat(k2, 32, PAT_R2, 502); rng_fill = 0x11; crypto_secretstream_xchacha20poly1305_init_push(&s2, hdr, k2);
        crypto_secretstream_xchacha20poly1305_push(&s2, foreign_key[shape].bytes, &ol, shape ? MSG : NULL, shape ? 17 : 0, shape ? AD : NULL, shape ? 5 : 0, 0); foreign_key[shape].len = (size_t) ol;
    }
}

static void do_root(long it)
{
    int sc = (int) (it / 11), ft = (int) (it % 11); const node *r = &ROOT[sc]; node n;
    /* partition by the first state-changing transition: 8 pushes, rekey pusher, rekey puller; ft == 10: the root's own self-loop pulls */
    if (ft == 10) { int save = DEPTH; DEPTH = 0; n_states++; explore(r, 0); DEPTH = save; return; }
    if (ft < 8) { int save_depth = DEPTH; (void) save_depth; step_push(r, 0, ft / 2, ft % 2); return; }
    n = *r;
    if (ft == 8) { crypto_secretstream_xchacha20poly1305_rekey(&n.push); m_rekey(&n.mpush); n.plog[n.npl++] = EV_REKEY; strcat(n.hist, "RP."); }
    else { crypto_secretstream_xchacha20poly1305_rekey(&n.pull); n.qlog[n.nql++] = EV_REKEY; strcat(n.hist, "RL."); }
    n_trans++; n_states++; explore(&n, 1);
}

/* one push/pull for every (mlen, adlen) against the reference chunk */
static void do_len(long L)
{
    size_t mlen = (size_t) L, adlen; unsigned char *m = malloc(mlen + 16), *c = malloc(mlen + 64), *want = malloc(mlen + 64), *o = malloc(mlen + 64), ad[48], hdr[24], tg; ull ol; int tag; char key[128];
    vf_pat(m, mlen, PAT_R1, 511); vf_pat(ad, 48, PAT_C, 512);
    for (adlen = 0; adlen <= 40; adlen++) for (tag = 0; tag < 4; tag += (adlen % 4 == 0 ? 1 : 3)) {
        sstate s, p; mstate ms;
        rng_fill = (unsigned char) (mlen + adlen);
        crypto_secretstream_xchacha20poly1305_init_push(&s, hdr, KEY); crypto_secretstream_xchacha20poly1305_init_pull(&p, hdr, KEY);
        ref_hchacha20(ms.k, hdr, KEY, NULL); memset(ms.nonce, 0, 12); ms.nonce[0] = 1; memcpy(ms.nonce + 4, hdr + 16, 8);
        memset(c, 0xA5, mlen + 64);
        crypto_secretstream_xchacha20poly1305_push(&s, c, &ol, m, mlen, adlen ? ad : NULL, adlen, (unsigned char) tag);
        ref_secretstream_chunk(want, m, mlen, ad, adlen, (uint8_t) tag, ms.k, ms.nonce); n_eval++; n_nontriv++;
        snprintf(key, sizeof key, "secretstream-len/mlen=%zu/adlen=%zu/tag=%d", mlen, adlen, tag);
        if (ol != mlen + 17 || memcmp(c, want, mlen + 17) || c[mlen + 17] != 0xA5) { vf_fail(key, "chunk differs from the documented construction"); continue; }
        m_after_chunk(&ms, want + 1 + mlen, (unsigned char) tag);
        if (memcmp(s.k, ms.k, 32) || memcmp(s.nonce, ms.nonce, 12)) vf_fail(key, "state after push differs from the model");
        if (crypto_secretstream_xchacha20poly1305_pull(&p, o, &ol, &tg, c, mlen + 17, adlen ? ad : NULL, adlen) != 0 || ol != mlen || tg != tag || memcmp(o, m, mlen)) vf_fail(key, "pull of the pushed chunk failed");
        if (memcmp(&p, &s, sizeof p)) vf_fail(key, "states not synchronised after push/pull");
    }
    free(m); free(c); free(want); free(o);
}

/* "any tags": every tag byte 0..255 (not only the four documented values) as first chunk, followed by a second chunk with every tag byte
 * of a small alphabet and a plain third chunk, from a fresh state and from the counter value before the wrap; pusher against the model after
 * every push (rekey exactly when bit TAG_REKEY is set or the counter wrapped), puller recovers all three and ends synchronised */
static void do_tagbyte(long T)
{
    static const unsigned char second[] = { 0, 1, 2, 3, 4, 6, 0x80, 0x82, 0xfd, 0xff };
    unsigned char hdr[24], c[3][64], want[64], o[32], tg; ull ol; int sc, u, i; char key[128];
    for (sc = 0; sc < 2; sc++) for (u = 0; u < (int) sizeof second; u++) {
        sstate s, p; mstate ms; unsigned char tags[3]; size_t ml[3] = { 5, 0, 9 }, al[3] = { 0, 3, 0 };
        tags[0] = (unsigned char) T; tags[1] = second[u]; tags[2] = 0;
        rng_fill = (unsigned char) (0x31 + sc);
        crypto_secretstream_xchacha20poly1305_init_push(&s, hdr, KEY); crypto_secretstream_xchacha20poly1305_init_pull(&p, hdr, KEY);
        ref_hchacha20(ms.k, hdr, KEY, NULL); memset(ms.nonce, 0, 12); ms.nonce[0] = 1; memcpy(ms.nonce + 4, hdr + 16, 8);
        if (sc) { set_counter(s.nonce, 0xfffffffeu); set_counter(p.nonce, 0xfffffffeu); set_counter(ms.nonce, 0xfffffffeu); }
        snprintf(key, sizeof key, "secretstream-tagbyte/start=%s/tags=%02x,%02x,00", sc ? "2^32-2" : "fresh", tags[0], tags[1]);
        for (i = 0; i < 3; i++) {
            crypto_secretstream_xchacha20poly1305_push(&s, c[i], &ol, MSG, ml[i], al[i] ? AD : NULL, al[i], tags[i]);
            ref_secretstream_chunk(want, MSG, ml[i], AD, al[i], tags[i], ms.k, ms.nonce); n_eval++; n_nontriv++;
            if (ol != ml[i] + 17 || memcmp(c[i], want, ml[i] + 17)) { vf_fail(key, "chunk %d differs from the documented construction", i); break; }
            m_after_chunk(&ms, want + 1 + ml[i], tags[i]);
            if (memcmp(s.k, ms.k, 32) || memcmp(s.nonce, ms.nonce, 12)) { vf_fail(key, "pusher state after chunk %d (tag 0x%02x) differs from the model (rekey iff tag & TAG_REKEY or counter wrap)", i, tags[i]); break; }
        }
        if (i < 3) continue;
        for (i = 0; i < 3; i++) {
            tg = 0xee; ol = 77;
            if (crypto_secretstream_xchacha20poly1305_pull(&p, o, &ol, &tg, c[i], ml[i] + 17, al[i] ? AD : NULL, al[i]) != 0 || ol != ml[i] || tg != tags[i] || memcmp(o, MSG, ml[i])) { vf_fail(key, "pull of genuine chunk %d (tag 0x%02x) failed or returned a wrong message/tag", i, tags[i]); break; }
            n_eval++; n_nontriv++;
        }
        if (i == 3 && memcmp(&p, &s, sizeof p)) vf_fail(key, "states not synchronised after three chunks");
    }
}

static void fin(void)
{
    vf_stat("states", n_states); vf_stat("transitions", n_trans); vf_stat("rejected_pulls_checked", n_fail_selfloops); vf_stat("accepted_pulls", n_succ);
    vf_stat("evaluations", n_eval + n_trans); vf_stat("nontrivial", n_nontriv + n_trans);
    n_states = n_trans = n_fail_selfloops = n_succ = n_eval = n_nontriv = 0;
}

int main(void)
{
    const char *d = getenv("VERIF_C09_DEPTH");
    vf_init_seed();
    DEPTH = d ? atoi(d) : (vf_tier_thorough() ? 6 : 4);
    if (DEPTH > MAXD) DEPTH = MAXD;
    randombytes_set_implementation(&rng_impl);
    if (sodium_init() < 0) return 2;
    make_roots();
    vf_stat("depth_bound", (unsigned long long) DEPTH);
    vf_parallel(16, 0, 11 * NROOT, do_root, fin);
    vf_parallel(16, 0, 301, do_len, fin);
    vf_parallel(16, 0, 256, do_tagbyte, fin);
    vf_sample("start counter 2^32-2: P01.P21.L.L -> second chunk carries TAG_REKEY while the counter wraps; puller must follow");
    vf_sample("P00.P11.pull(skip-ahead) -> rejected, puller state bit-identical, then pull(next) accepted");
    vf_sample("RP.P00.pull(next,desynchronised) -> rejected: the puller did not rekey where the pusher did");
    vf_sample("P31.L.P00.L -> FINAL-tagged chunk (PUSH|REKEY) followed by another chunk: both sides rekey after FINAL");
    return 0;
}
