/* C14: constant-time helpers are exact. Exhaustive shape enumeration against a schoolbook reference. */
#include "common.h"
#include <sodium.h>

#define MAXL 130
static unsigned long long n_eval, n_nontriv;
static int thorough;

/* ---------- reference ---------- */
static int ref_cmp_le(const unsigned char *a, const unsigned char *b, size_t len)
{
    size_t i = len;
    while (i-- > 0) {
        if (a[i] < b[i]) return -1;
        if (a[i] > b[i]) return 1;
    }
    return 0;
}
static void ref_add(unsigned char *a, const unsigned char *b, size_t len)
{
    unsigned c = 0; size_t i;
    for (i = 0; i < len; i++) { unsigned s = (unsigned) a[i] + b[i] + c; a[i] = (unsigned char) (s & 0xff); c = s > 0xff; }
}
static void ref_sub(unsigned char *a, const unsigned char *b, size_t len)
{
    unsigned br = 0; size_t i;
    for (i = 0; i < len; i++) {
        int d = (int) a[i] - (int) b[i] - (int) br;
        br = d < 0; if (d < 0) d += 256; a[i] = (unsigned char) d;
    }
}
static int ref_is_zero(const unsigned char *a, size_t len)
{
    size_t i; for (i = 0; i < len; i++) if (a[i]) return 0; return 1;
}

/* ---------- one comparison case: checks every comparison helper applicable to len ---------- */
static unsigned char bufA[MAXL + 64 + 16], bufB[MAXL + 64 + 16];
static char seen_fams[24][24]; static int n_seen;
/* emit the first executed case of each family handled by the worker that owns len 12 / 64 as a literal sample */
static void maybe_sample(const char *fn, const char *fam, const unsigned char *x, const unsigned char *y, size_t len, int al)
{
    int i; char t[48];
    if (len != 12 && len != 64) return;
    snprintf(t, sizeof t, "%.8s%zu%.10s", fn, len, fam);
    for (i = 0; i < n_seen; i++) if (!strcmp(seen_fams[i], t)) return;
    if (n_seen >= 24) return;
    strcpy(seen_fams[n_seen++], t);
    vf_sample("%s family=%s len=%zu align=%d a=%s b=%s", fn, fam, len, al, vf_hex(x, len), y ? vf_hex(y, len) : "-");
}

static void cmp_case(const char *fam, const unsigned char *x, const unsigned char *y, size_t len, int al, long p1, long p2)
{
    unsigned char *a = bufA + al, *b = bufB + ((al * 7 + 3) & 15);
    int eq = memcmp(x, y, len) == 0, r, want;
    char key[160];
    memcpy(a, x, len); memcpy(b, y, len);
    n_eval++; if (len) n_nontriv++;
    maybe_sample("compare", fam, x, y, len, al);
    r = sodium_memcmp(a, b, len); want = eq ? 0 : -1;
    if (r != want) { snprintf(key, sizeof key, "sodium_memcmp/len=%zu/%s/%ld/%ld/al=%d", len, fam, p1, p2, al);
        vf_fail(key, "got %d want %d a=%s b=%s", r, want, vf_hex(a, len), vf_hex(b, len)); }
    r = sodium_compare(a, b, len); want = ref_cmp_le(x, y, len);
    if (r != want) { snprintf(key, sizeof key, "sodium_compare/len=%zu/%s/%ld/%ld/al=%d", len, fam, p1, p2, al);
        vf_fail(key, "got %d want %d a=%s b=%s", r, want, vf_hex(a, len), vf_hex(b, len)); }
    r = sodium_compare(b, a, len); want = -want;
    if (r != want) { snprintf(key, sizeof key, "sodium_compare-swapped/len=%zu/%s/%ld/%ld/al=%d", len, fam, p1, p2, al);
        vf_fail(key, "got %d want %d", r, want); }
    if (len == 16 || len == 32 || len == 64) {
        r = len == 16 ? crypto_verify_16(a, b) : len == 32 ? crypto_verify_32(a, b) : crypto_verify_64(a, b);
        want = eq ? 0 : -1;
        if (r != want) { snprintf(key, sizeof key, "crypto_verify_%zu/%s/%ld/%ld/al=%d", len, fam, p1, p2, al);
            vf_fail(key, "got %d want %d a=%s b=%s", r, want, vf_hex(a, len), vf_hex(b, len)); }
        n_eval++; n_nontriv++;
    }
    /* is_zero on the difference */
    { unsigned char d[MAXL + 64]; size_t i; for (i = 0; i < len; i++) d[i] = x[i] ^ y[i];
      memcpy(a, d, len);
      r = sodium_is_zero(a, len); want = ref_is_zero(d, len);
      if (r != want) { snprintf(key, sizeof key, "sodium_is_zero/len=%zu/%s/%ld/%ld/al=%d", len, fam, p1, p2, al);
          vf_fail(key, "got %d want %d n=%s", r, want, vf_hex(d, len)); } }
}

static void arith_case(const char *fam, const unsigned char *x, const unsigned char *y, size_t len, int al, long p1, long p2)
{
    unsigned char *a = bufA + al, *b = bufB + ((al * 5 + 1) & 15), ra[MAXL + 64];
    char key[160];
    n_eval += 2; if (len) n_nontriv += 2;
    maybe_sample("add/sub", fam, x, y, len, al);
    /* add */
    memset(bufA, 0xA5, sizeof bufA);
    memcpy(a, x, len); memcpy(b, y, len); memcpy(ra, x, len); ref_add(ra, y, len);
    sodium_add(a, b, len);
    if (memcmp(a, ra, len) || a[len] != 0xA5 || (al > 0 && a[-1] != 0xA5) || memcmp(b, y, len)) {
        snprintf(key, sizeof key, "sodium_add/len=%zu/%s/%ld/%ld/al=%d", len, fam, p1, p2, al);
        vf_fail(key, "a=%s b=%s got=%s want=%s", vf_hex(x, len), vf_hex(y, len), vf_hex(a, len), vf_hex(ra, len)); }
    /* sub */
    memset(bufA, 0xA5, sizeof bufA);
    memcpy(a, x, len); memcpy(b, y, len); memcpy(ra, x, len); ref_sub(ra, y, len);
    sodium_sub(a, b, len);
    if (memcmp(a, ra, len) || a[len] != 0xA5 || (al > 0 && a[-1] != 0xA5) || memcmp(b, y, len)) {
        snprintf(key, sizeof key, "sodium_sub/len=%zu/%s/%ld/%ld/al=%d", len, fam, p1, p2, al);
        vf_fail(key, "a=%s b=%s got=%s want=%s", vf_hex(x, len), vf_hex(y, len), vf_hex(a, len), vf_hex(ra, len)); }
}

static void inc_case(const char *fam, const unsigned char *x, size_t len, int al, long p1)
{
    unsigned char *a = bufA + al, ra[MAXL + 64], one[MAXL + 64];
    char key[160];
    n_eval++; if (len) n_nontriv++;
    memset(bufA, 0xA5, sizeof bufA);
    memset(one, 0, sizeof one); one[0] = 1;
    memcpy(a, x, len); memcpy(ra, x, len); ref_add(ra, one, len);
    sodium_increment(a, len);
    if (memcmp(a, ra, len) || a[len] != 0xA5 || (al > 0 && a[-1] != 0xA5)) {
        snprintf(key, sizeof key, "sodium_increment/len=%zu/%s/%ld/al=%d", len, fam, p1, al);
        vf_fail(key, "n=%s got=%s want=%s", vf_hex(x, len), vf_hex(a, len), vf_hex(ra, len)); }
}

static void memzero_case(size_t len, int al)
{
    static unsigned char z[4400 + 64];
    size_t i; char key[96]; int bad = 0;
    n_eval++; if (len) n_nontriv++;
    memset(z, 0xC3, sizeof z);
    sodium_memzero(z + 16 + al, len);
    for (i = 0; i < sizeof z; i++) {
        unsigned char want = (i >= 16 + (size_t) al && i < 16 + al + len) ? 0 : 0xC3;
        if (z[i] != want) bad = 1;
    }
    if (bad) { snprintf(key, sizeof key, "sodium_memzero/len=%zu/al=%d", len, al); vf_fail(key, "wrong bytes zeroed"); }
}

/* ---------- enumeration for one length ---------- */
static void do_len(long L)
{
    size_t len = (size_t) L, i, j;
    unsigned char x[MAXL + 64], y[MAXL + 64];
    int p, q, al;
    static const unsigned char deltas[3] = { 1, 0xff, 0x80 };

    for (al = 0; al < 16; al++) {
        int full = (al == 0 || al == 1 || al == 8 || al == 15 || thorough);
        /* equal operands + all pattern pairs */
        for (p = 0; p < PAT_N; p++) {
            vf_pat(x, len, p, 1);
            cmp_case("equal", x, x, len, al, p, 0);
            inc_case("pat", x, len, al, p);
            for (q = 0; q < PAT_N; q++) {
                vf_pat(y, len, q, 2);
                cmp_case("patpair", x, y, len, al, p, q);
                arith_case("patpair", x, y, len, al, p, q);
            }
        }
        if (!full) continue;
        /* single-bit differences at every bit position, on three base patterns */
        for (p = 0; p < 3; p++) {
            int base = p == 0 ? PAT_Z : p == 1 ? PAT_F : PAT_R1;
            vf_pat(x, len, base, 3);
            for (i = 0; i < 8 * len; i++) {
                memcpy(y, x, len); y[i >> 3] ^= (unsigned char) (1u << (i & 7));
                cmp_case("bit", x, y, len, al, base, (long) i);
                arith_case("bit", x, y, len, al, base, (long) i);
            }
            /* single-byte differences +1, -1, ^0x80 */
            for (i = 0; i < len; i++) for (j = 0; j < 3; j++) {
                memcpy(y, x, len); y[i] = (unsigned char) (j == 2 ? y[i] ^ 0x80 : y[i] + deltas[j]);
                cmp_case("byte", x, y, len, al, base * 4 + (long) j, (long) i);
            }
        }
    }
    /* two opposite-direction differences at every pair of positions i<j (ordering decided by j) */
    vf_pat(x, len, PAT_C, 4);
    for (i = 0; i < len; i++) for (j = i + 1; j < len; j++) {
        memcpy(y, x, len); y[i] = (unsigned char) (x[i] + 1); y[j] = (unsigned char) (x[j] - 1);
        if (x[i] == 0xff || x[j] == 0) continue;
        cmp_case("opp", x, y, len, 0, (long) i, (long) j);
        memcpy(y, x, len); y[i] = (unsigned char) (x[i] - 1); y[j] = (unsigned char) (x[j] + 1);
        if (x[i] == 0 || x[j] == 0xff) continue;
        cmp_case("opp2", x, y, len, 0, (long) i, (long) j);
    }
    /* equal differences in two 16-byte lanes (cancel in a verifier that XORs lanes): same bit at i and i+16k */
    if (len >= 32) { vf_pat(x, len, PAT_R1, 9); for (i = 0; i < 8 * 16; i++) for (j = 16; j + 16 <= len; j += 16) { memcpy(y, x, len); y[i >> 3] ^= (unsigned char) (1u << (i & 7)); y[(i >> 3) + j] ^= (unsigned char) (1u << (i & 7)); cmp_case("twolane", x, y, len, (int) (i & 15), (long) i, (long) j); } }
    /* carry / borrow chains of every (start, length) */
    for (i = 0; i < len; i++) for (j = 1; i + j <= len; j++) {
        size_t k;
        for (p = 0; p < 2; p++) {
            /* add: 0xff run [i,i+j) + 1 at byte i ; background zero or pattern C */
            if (p == 0) memset(x, 0, len); else vf_pat(x, len, PAT_C, 5);
            for (k = i; k < i + j; k++) x[k] = 0xff;
            memset(y, 0, len); y[i] = 1;
            arith_case("carry", x, y, len, (int) ((i + j) & 15), (long) i, (long) j);
            /* sub: 0x00 run - 1 */
            if (p == 0) memset(x, 0xff, len); else vf_pat(x, len, PAT_H, 5);
            for (k = i; k < i + j; k++) x[k] = 0;
            arith_case("borrow", x, y, len, (int) ((i + j) & 15), (long) i, (long) j);
            /* compare around the run */
            cmp_case("carrycmp", x, y, len, 0, (long) i, (long) j);
        }
        if (i == 0) {
            /* increment on a 0xff prefix of every length */
            vf_pat(x, len, PAT_R2, 6);
            for (k = 0; k < j; k++) x[k] = 0xff;
            inc_case("ffprefix", x, len, (int) (j & 15), (long) j);
            memset(x, 0, len); for (k = 0; k < j; k++) x[k] = 0xff;
            inc_case("ffprefix0", x, len, (int) (j & 15), (long) j);
        }
    }
    /* a + ~a + 1 == 0 ; a - a == 0 ; 0 - 1 == ff..ff */
    for (p = 0; p < PAT_N; p++) {
        vf_pat(x, len, p, 7);
        for (i = 0; i < len; i++) y[i] = (unsigned char) ~x[i];
        arith_case("compl", x, y, len, 3, p, 0);
        arith_case("self", x, x, len, 5, p, 0);
    }
    /* single non-zero byte v at each position, against each pattern */
    for (p = 0; p < PAT_N; p++) {
        static const unsigned char vs[4] = { 1, 0x7f, 0x80, 0xff };
        vf_pat(x, len, p, 8);
        for (i = 0; i < len; i++) for (j = 0; j < 4; j++) {
            memset(y, 0, len); y[i] = vs[j];
            arith_case("onebyte", x, y, len, 0, p * 4 + (long) j, (long) i);
            arith_case("onebyte-rev", y, x, len, 0, p * 4 + (long) j, (long) i);
        }
    }
    for (al = 0; al < 16; al++) memzero_case(len, al);
}

/* exhaustive small operands: every pair of 1-byte values; 2-byte pairs (boundary set or all 2^32) */
static const unsigned char bset[6] = { 0x00, 0x01, 0x7f, 0x80, 0xfe, 0xff };
static void small_case(unsigned a0, unsigned b0, size_t len)
{
    unsigned char x[2], y[2];
    x[0] = (unsigned char) a0; x[1] = (unsigned char) (a0 >> 8); y[0] = (unsigned char) b0; y[1] = (unsigned char) (b0 >> 8);
    cmp_case("small", x, y, len, 0, (long) a0, (long) b0);
    arith_case("small", x, y, len, 0, (long) a0, (long) b0);
}
static void do_small(long hi)
{
    unsigned a, b;
    if (hi < 256) {           /* 1-byte exhaustive: a = hi, all b */
        for (b = 0; b < 256; b++) small_case((unsigned) hi, b, 1);
        return;
    }
    hi -= 256;                /* 2-byte: high byte of a = hi */
    if (thorough) {
        for (a = (unsigned) hi << 8; a < (((unsigned) hi + 1) << 8); a++)
            for (b = 0; b < 65536; b++) small_case(a, b, 2);
    } else {
        int i, j, k, l;
        int inset = 0;
        for (i = 0; i < 6; i++) if (bset[i] == hi) inset = 1;
        if (!inset) return;
        for (j = 0; j < 6; j++) for (k = 0; k < 6; k++) for (l = 0; l < 6; l++)
            small_case(((unsigned) hi << 8) | bset[j], ((unsigned) bset[k] << 8) | bset[l], 2);
    }
}

/* operands built from whole 8-byte limbs (and 4-byte half limbs) over a boundary alphabet, for both operands independently: the carry/borrow
 * cases of a word-at-a-time implementation (limb all ones in both operands with an incoming borrow, 0 - 0 with borrow, ff + 00 with carry ...) */
static void do_limbs(long item)
{
    static const unsigned char LA[6][8] = { { 0 }, { 1 }, { 0xff,0xff,0xff,0xff,0xff,0xff,0xff,0xff }, { 0xfe,0xff,0xff,0xff,0xff,0xff,0xff,0xff }, { 0,0,0,0,0,0,0,0x80 }, { 0xff,0xff,0xff,0xff,0xff,0xff,0xff,0x7f } };
    static const size_t TAILS[4] = { 0, 1, 4, 7 }; int k = 1 + (int) (item / 36), xa0 = (int) (item % 36) / 6, ya0 = (int) (item % 6); unsigned long c, n; unsigned ti, tv;
    unsigned char x[40], y[40];
    if (k > 3) return;
    for (n = 1, c = 1; (int) c < k; c++) n *= 36;
    for (c = 0; c < n; c++) {
        unsigned long v = c; int l;
        memcpy(x, LA[xa0], 8); memcpy(y, LA[ya0], 8);
        for (l = 1; l < k; l++) { memcpy(x + 8 * l, LA[(v % 36) / 6], 8); memcpy(y + 8 * l, LA[v % 6], 8); v /= 36; }
        for (ti = 0; ti < 4; ti++) for (tv = 0; tv < 3; tv++) {
            size_t len = (size_t) (8 * k) + TAILS[ti];
            if (TAILS[ti] == 0 && tv) continue;
            memset(x + 8 * k, tv == 0 ? 0x00 : tv == 1 ? 0xff : 0x01, TAILS[ti]); memset(y + 8 * k, tv == 0 ? 0xff : tv == 1 ? 0xff : 0x00, TAILS[ti]);
            arith_case("limbs", x, y, len, (int) ((c + ti) & 15), (long) item, (long) (c * 16 + ti * 4 + tv));
            cmp_case("limbs", x, y, len, (int) ((c + ti + 3) & 15), (long) item, (long) (c * 16 + ti * 4 + tv));
            inc_case("limbs", x, len, (int) (ti & 15), (long) item);
        }
    }
}

/* long operands (above the dense range): every single-bit and single-byte difference, opposite differences at the ends, carries through the whole length */
static const size_t LONGL[] = { 131, 191, 255, 256, 257, 263, 264, 265, 511, 512, 513, 1023, 1024, 1025, 2048, 4095, 4096, 4097 };
static void do_long(long idx)
{
    size_t len = LONGL[idx], i; int base, r, want, al = (int) (idx & 7); char key[160];
    unsigned char *x = malloc(len + 32), *y = malloc(len + 32), *a0 = malloc(len + 32), *b0 = malloc(len + 32), *a = a0 + al, *b = b0 + ((al * 5 + 1) & 15), *d = malloc(len + 32);
    for (base = 0; base < 3; base++) {
        vf_pat(x, len, base == 0 ? PAT_Z : base == 1 ? PAT_F : PAT_R1, 7);
        memcpy(a, x, len); memcpy(b, x, len); n_eval++; n_nontriv++;
        if (sodium_memcmp(a, b, len) != 0 || sodium_compare(a, b, len) != 0) { snprintf(key, sizeof key, "long/equal/len=%zu/base=%d", len, base); vf_fail(key, "equal operands reported different"); }
        for (i = 0; i < 8 * len; i++) {
            if (!thorough && len > 1100 && (i >> 3) % 64 > 9 && (i >> 3) % 64 < 54 && (i >> 3) + 70 < len) continue;       /* quick: every byte lane of every 64-byte stride edge, all bytes near both ends */
            y[i >> 3] = (unsigned char) (x[i >> 3] ^ (1u << (i & 7))); b[i >> 3] = y[i >> 3];
            n_eval++; n_nontriv++;
            r = sodium_memcmp(a, b, len);
            if (r != -1) { snprintf(key, sizeof key, "sodium_memcmp/long/len=%zu/base=%d/bit=%zu", len, base, i); vf_fail(key, "got %d want -1 (operands differ in one bit of byte %zu)", r, i >> 3); }
            want = (y[i >> 3] > x[i >> 3]) ? -1 : 1; r = sodium_compare(a, b, len);
            if (r != want) { snprintf(key, sizeof key, "sodium_compare/long/len=%zu/base=%d/bit=%zu", len, base, i); vf_fail(key, "got %d want %d", r, want); }
            memset(d, 0, len); d[i >> 3] = (unsigned char) (1u << (i & 7));
            if (sodium_is_zero(d, len) != 0) { snprintf(key, sizeof key, "sodium_is_zero/long/len=%zu/bit=%zu", len, i); vf_fail(key, "a buffer with one bit set reported zero"); }
            b[i >> 3] = x[i >> 3];
        }
        /* opposite differences at both ends: the most significant (last) byte decides */
        memcpy(b, x, len); b[0] = (unsigned char) (x[0] + 1); b[len - 1] = (unsigned char) (x[len - 1] ^ 0x40); n_eval++;
        want = b[len - 1] > x[len - 1] ? -1 : 1; r = sodium_compare(a, b, len);
        if (r != want) { snprintf(key, sizeof key, "sodium_compare/long-ends/len=%zu/base=%d", len, base); vf_fail(key, "got %d want %d", r, want); }
    }
    /* carries through the whole length */
    memset(a, 0xff, len); sodium_increment(a, len); n_eval++; n_nontriv++;
    if (!sodium_is_zero(a, len)) { snprintf(key, sizeof key, "sodium_increment/long/len=%zu", len); vf_fail(key, "ff..ff + 1 is not zero"); }
    memset(a, 0xff, len); memset(b, 0, len); b[0] = 1; sodium_add(a, b, len); n_eval++;
    if (!sodium_is_zero(a, len)) { snprintf(key, sizeof key, "sodium_add/long/len=%zu", len); vf_fail(key, "ff..ff + 1 is not zero"); }
    memset(a, 0, len); sodium_sub(a, b, len); memset(d, 0xff, len); n_eval++;
    if (memcmp(a, d, len)) { snprintf(key, sizeof key, "sodium_sub/long/len=%zu", len); vf_fail(key, "0 - 1 is not ff..ff"); }
    vf_pat(x, len, PAT_R1, 8); vf_pat(y, len, PAT_R2, 9); memcpy(a, x, len); memcpy(b, y, len); memcpy(d, x, len); ref_add(d, y, len); sodium_add(a, b, len); n_eval++;
    if (memcmp(a, d, len)) { snprintf(key, sizeof key, "sodium_add/long-random/len=%zu", len); vf_fail(key, "sum differs from the reference"); }
    memcpy(d, a, len); ref_sub(d, y, len); sodium_sub(a, b, len); n_eval++;
    if (memcmp(a, d, len) || memcmp(a, x, len)) { snprintf(key, sizeof key, "sodium_sub/long-random/len=%zu", len); vf_fail(key, "difference differs from the reference"); }
    free(x); free(y); free(a0); free(b0); free(d);
}

/* sodium_stackzero(len) must clear the len bytes of dead stack below its caller: a pattern is left there by a helper that has returned, then
 * looked for again.  The two helpers' frames start within a few hundred bytes of each other, so the range [512, len - 512) below the pattern's
 * top lies inside what must have been wiped. */
static volatile uintptr_t sz_lo, sz_hi;
__attribute__((noinline)) static void stack_fill(size_t depth)
{
    volatile unsigned char a[depth]; size_t i;
    for (i = 0; i < depth; i++) a[i] = 0xa5;
    sz_lo = (uintptr_t) &a[0]; sz_hi = sz_lo + depth;
    __asm__ __volatile__("" ::: "memory");
}
__attribute__((noinline)) static size_t stack_count(uintptr_t lo, uintptr_t hi)
{
    size_t n = 0; const volatile unsigned char *p;
    for (p = (const volatile unsigned char *) lo; p < (const volatile unsigned char *) hi; p++) if (*p == 0xa5) n++;
    return n;
}
__attribute__((noinline)) static void stackzero_case(size_t len)
{
    size_t left, before; char key[96];
    stack_fill(len + 2048);
    before = stack_count(sz_hi - len + 512, sz_hi - 512);
    sodium_stackzero(len);
    left = stack_count(sz_hi - len + 512, sz_hi - 512);
    n_eval++; n_nontriv++;
    if (before < len - 1024 - 600) { snprintf(key, sizeof key, "sodium_stackzero/len=%zu/harness", len); printf("INFO stackzero probe at len=%zu could not place its pattern (%zu of %zu bytes): not judged\n", len, before, len - 1024); return; }
    if (left != 0) { snprintf(key, sizeof key, "sodium_stackzero/len=%zu", len); vf_fail(key, "%zu pattern bytes of the dead stack within the %zu bytes below the caller survived the wipe", left, len); }
}

static void fin(void) { vf_stat("evaluations", n_eval); vf_stat("nontrivial", n_nontriv); }

int main(void)
{
    vf_init_seed();
    thorough = vf_tier_thorough();
    if (sodium_init() < 0) return 2;
    sodium_stackzero(0); sodium_stackzero(1); sodium_stackzero(4096);
    { static const size_t SZ[] = { 1100, 2048, 4095, 4096, 4097, 5000, 8192, 8193, 12288, 65536, 65537, 262144, 1048576 }; unsigned i; for (i = 0; i < sizeof SZ / sizeof SZ[0]; i++) stackzero_case(SZ[i]); }
    vf_parallel(16, 0, MAXL + 1, do_len, fin);
    vf_parallel(16, 0, 512, do_small, fin);
    vf_parallel(16, 0, (long) (sizeof LONGL / sizeof LONGL[0]), do_long, fin);
    vf_parallel(16, 0, 108, do_limbs, fin);
    /* memzero on larger lengths */
    { size_t l; for (l = 131; l <= 4400; l += (thorough ? 1 : 37)) memzero_case(l, (int) (l & 15)); fin(); }
    return 0;
}
