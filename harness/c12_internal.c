/* C12: the non-default random source randombytes_internal_implementation (ChaCha20 generator with a 32-bit pool shared by random()/uniform()).
 * Operation-sequence family: EVERY sequence of depth <= 3 (thorough 4) over the alphabet { random(), uniform(10), uniform(2^31+1), buf(k) for
 * k in 0..9, 16, 17, 64, 600 (> pool), stir() } followed by a tail of 700 random() calls (pool = 480 usable bytes = 120 draws: > 5 refills), each in
 * a forked child that installs the source BEFORE sodium_init.  buf() targets are exact-size heap blocks.  Oracle: the child ends with exit 0 - no
 * sanitizer report, no fatal signal, no hang (alarm) - and the tail never returns the same 32-bit value 64 times in a row. */
#define _GNU_SOURCE
#include "common.h"
#include <sodium.h>

#define NOPS 18
#define TAIL 700
static const size_t BUFK[14] = { 0, 1, 2, 3, 4, 5, 6, 7, 8, 9, 16, 17, 64, 600 };
static unsigned long long n_eval, n_nontriv;
static int depth_max;

static const char *opname(int op)
{
    static char b[4][24]; static int k; char *s = b[k++ & 3];
    if (op == 0) return "random"; if (op == 1) return "uniform(10)"; if (op == 2) return "uniform(2^31+1)"; if (op == NOPS - 1) return "stir";
    snprintf(s, 24, "buf(%zu)", BUFK[op - 3]); return s;
}
static void do_op(int op)
{
    if (op == 0) (void) randombytes_random();
    else if (op == 1) (void) randombytes_uniform(10);
    else if (op == 2) (void) randombytes_uniform(0x80000001U);
    else if (op == NOPS - 1) randombytes_stir();
    else { size_t k = BUFK[op - 3]; unsigned char *p = malloc(k + (k == 0)); if (p == NULL) _exit(2); randombytes_buf(p, k); free(p); }
}
static int child(const int *ops, int depth)
{
    uint32_t prev = 0, v; int i, run = 0;
    signal(SIGSEGV, SIG_DFL); signal(SIGBUS, SIG_DFL); signal(SIGABRT, SIG_DFL); alarm(120);
    if (randombytes_set_implementation(&randombytes_internal_implementation) != 0 || sodium_init() != 0) return 2;
    if (strcmp(randombytes_implementation_name(), "internal")) return 2;
    for (i = 0; i < depth; i++) do_op(ops[i]);
    for (i = 0; i < TAIL; i++) { v = randombytes_random(); run = (i > 0 && v == prev) ? run + 1 : 1; prev = v; if (run >= 64) return 3; }
    return 0;
}
/* sequence index -> (depth, ops): index 0 = empty sequence, then all of depth 1, depth 2, ... */
static void do_seq(long idx)
{
    int ops[4] = { -1, -1, -1, -1 }, depth = 0, t, st = 0; long cnt = 1, v; pid_t pid; char key[160];
    if (idx > 0) { v = idx - 1; for (depth = 1, cnt = NOPS; v >= cnt; depth++) { v -= cnt; cnt *= NOPS; } for (t = 0; t < depth; t++) { ops[t] = (int) (v % NOPS); v /= NOPS; } }
    snprintf(key, sizeof key, "sanitizer/internal-random-source/seq=%s,%s,%s,%s(depth %d)/tail=%d", depth > 0 ? opname(ops[0]) : "-", depth > 1 ? opname(ops[1]) : "-",
             depth > 2 ? opname(ops[2]) : "-", depth > 3 ? opname(ops[3]) : "-", depth, TAIL);
    fflush(stdout); pid = fork();
    if (pid < 0) exit(2);
    if (pid == 0) _exit(child(ops, depth));
    waitpid(pid, &st, 0); n_eval++; n_nontriv++;
    if (idx == 48 || idx == 4800) VF_SAMPLE_CASE(2, "%s in a fresh process, source installed before sodium_init: exit 0", key);
    if (WIFEXITED(st) && WEXITSTATUS(st) == 2) { printf("INFO %s: could not install the internal source\n", key); exit(2); }
    if (WIFEXITED(st) && WEXITSTATUS(st) == 3) vf_fail(key, "randombytes_random() returned the same 32-bit value 64 times in a row");
    else if (WIFSIGNALED(st)) vf_fail(key, "process died with signal %d%s (out-of-bounds access / hang in the generator)", WTERMSIG(st), WTERMSIG(st) == SIGALRM ? " (alarm: hang)" : "");
    else if (!(WIFEXITED(st) && WEXITSTATUS(st) == 0)) vf_fail(key, "sanitizer report or abnormal exit (status %#x; see stderr)", st);
}
static void fin(void) { vf_stat("evaluations", n_eval); vf_stat("nontrivial", n_nontriv); n_eval = n_nontriv = 0; }

int main(void)
{
    long total = 1, p = 1; int d;
    vf_init_seed(); depth_max = vf_tier_thorough() ? 4 : 3;
    for (d = 1; d <= depth_max; d++) { p *= NOPS; total += p; }
    vf_parallel(16, 0, total, do_seq, fin);      /* the parent never initialises libsodium: every child starts from the pristine image */
    return 0;
}
