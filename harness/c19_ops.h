/* operation table shared by the scheduler harness (c19.c) and the free-running TSan/helgrind complement (c19_free.c) */
#ifndef C19_OPS_H
#define C19_OPS_H
#include <sodium.h>
#include <stdint.h>
#include <string.h>
/* ---------------- thread bodies ---------------- */
static uint64_t h64(uint64_t h, const void *p, size_t n) { const unsigned char *b = p; size_t i; for (i = 0; i < n; i++) { h ^= b[i]; h *= 0x100000001b3ULL; } return h; }
#define H0 0xcbf29ce484222325ULL

static int64_t op_flags(void)
{
    return sodium_runtime_has_sse2() | sodium_runtime_has_sse3() << 1 | sodium_runtime_has_ssse3() << 2 | sodium_runtime_has_sse41() << 3 | sodium_runtime_has_avx() << 4 |
           sodium_runtime_has_avx2() << 5 | sodium_runtime_has_avx512f() << 6 | sodium_runtime_has_pclmul() << 7 | sodium_runtime_has_aesni() << 8 | sodium_runtime_has_rdrand() << 9 |
           crypto_aead_aes256gcm_is_available() << 10;
}
static int64_t op_rngname(void) { return strcmp(randombytes_implementation_name(), "sysrandom") == 0; }
static int64_t op_malloc(void) { unsigned char *p = sodium_malloc(40); uint64_t h; if (!p) return -1; h = h64(H0, p - 16, 16); h = h64(h, p, 40); p[0] = 1; p[39] = 2; sodium_free(p); return (int64_t) h; }
static int64_t op_mprotect(void) { unsigned char *p = sodium_malloc(100); int r; if (!p) return -1; r = sodium_mprotect_readonly(p); r |= sodium_mprotect_noaccess(p) << 1; r |= sodium_mprotect_readwrite(p) << 2; p[5] = 1; sodium_free(p); return r; }
static int64_t op_generichash(void) { unsigned char o[32], m[200]; memset(m, 7, sizeof m); crypto_generichash(o, 32, m, sizeof m, NULL, 0); return (int64_t) h64(H0, o, 32); }
static int64_t op_onetimeauth(void) { unsigned char o[16], m[100], k[32]; memset(m, 7, sizeof m); memset(k, 9, 32); crypto_onetimeauth(o, m, sizeof m, k); return (int64_t) h64(H0, o, 16); }
static int64_t op_chacha(void) { unsigned char o[128], k[32], n[8]; memset(k, 9, 32); memset(n, 1, 8); crypto_stream_chacha20(o, sizeof o, n, k); return (int64_t) h64(H0, o, sizeof o); }
static int64_t op_salsa(void) { unsigned char o[128], k[32], n[8]; memset(k, 9, 32); memset(n, 1, 8); crypto_stream_salsa20(o, sizeof o, n, k); return (int64_t) h64(H0, o, sizeof o); }
static int64_t op_scalarmult(void) { unsigned char q[32], n[32]; memset(n, 5, 32); crypto_scalarmult_base(q, n); return (int64_t) h64(H0, q, 32); }
static int64_t op_aegis(void) { unsigned char c[64], k[16], n[16], m[20]; unsigned long long cl; memset(k, 3, 16); memset(n, 4, 16); memset(m, 5, 20); crypto_aead_aegis128l_encrypt(c, &cl, m, 20, NULL, 0, NULL, n, k); return (int64_t) h64(H0, c, (size_t) cl); }
static int64_t op_aegis256(void) { unsigned char c[64], k[32], n[32], m[20]; unsigned long long cl; memset(k, 3, 32); memset(n, 4, 32); memset(m, 5, 20); crypto_aead_aegis256_encrypt(c, &cl, m, 20, NULL, 0, NULL, n, k); return (int64_t) h64(H0, c, (size_t) cl); }
static int64_t op_pwhash(void) { unsigned char o[16], s[16]; memset(s, 2, 16); if (crypto_pwhash(o, 16, "pw", 2, s, 1, 8192, crypto_pwhash_ALG_ARGON2ID13)) return -1; return (int64_t) h64(H0, o, 16); }
static int64_t op_randombuf(void) { unsigned char b[24]; randombytes_buf(b, sizeof b); return (int64_t) h64(H0, b, sizeof b); }
static int64_t op_randombuf_large(void) { static __thread unsigned char b[20000]; randombytes_buf(b, sizeof b); randombytes_buf(b, 16384); randombytes_buf(b, 16383); return 1; }
static int64_t op_uniform(void) { return (int64_t) randombytes_uniform(1000); }
static int64_t op_secretbox(void) { unsigned char c[48], k[32], n[24], m[32]; memset(k, 1, 32); memset(n, 2, 24); memset(m, 3, 32); crypto_secretbox_easy(c, m, 32, n, k); return (int64_t) h64(H0, c, 48); }
static int64_t op_aead(void) { unsigned char c[48], k[32], n[12], m[32]; unsigned long long cl; memset(k, 1, 32); memset(n, 2, 12); memset(m, 3, 32); crypto_aead_chacha20poly1305_ietf_encrypt(c, &cl, m, 32, NULL, 0, NULL, n, k); return (int64_t) h64(H0, c, 48); }
static int64_t op_gcm(void) { unsigned char c[48], k[32], n[12], m[32]; unsigned long long cl; if (!crypto_aead_aes256gcm_is_available()) return 0; memset(k, 1, 32); memset(n, 2, 12); memset(m, 3, 32); crypto_aead_aes256gcm_encrypt(c, &cl, m, 32, NULL, 0, NULL, n, k); return (int64_t) h64(H0, c, 48); }
static int64_t op_sign(void) { unsigned char pk[32], sk[64], seed[32], sig[64]; memset(seed, 8, 32); crypto_sign_seed_keypair(pk, sk, seed); crypto_sign_detached(sig, NULL, (const unsigned char *) "abc", 3, sk); return (int64_t) h64(H0, sig, 64) ^ crypto_sign_verify_detached(sig, (const unsigned char *) "abc", 3, pk); }
static int64_t op_hash(void) { unsigned char o[64]; crypto_hash_sha512(o, (const unsigned char *) "abc", 3); return (int64_t) h64(H0, o, 64); }
static int64_t op_shorthash(void) { unsigned char o[8], k[16]; memset(k, 1, 16); crypto_shorthash(o, (const unsigned char *) "abc", 3, k); return (int64_t) h64(H0, o, 8); }
static int64_t op_secretstream(void) { crypto_secretstream_xchacha20poly1305_state st; unsigned char h[24], k[32], c[40]; memset(k, 1, 32); crypto_secretstream_xchacha20poly1305_init_push(&st, h, k); crypto_secretstream_xchacha20poly1305_push(&st, c, NULL, (const unsigned char *) "abc", 3, NULL, 0, 0); return (int64_t) h64(h64(H0, h, 24), c, 20); }
static int64_t op_keygen(void) { unsigned char pk[32], sk[32]; crypto_box_keypair(pk, sk); return (int64_t) h64(h64(H0, pk, 32), sk, 32); }
static int64_t op_scrypt(void) { unsigned char o[16], s[32]; memset(s, 2, 32); if (crypto_pwhash_scryptsalsa208sha256_ll((const uint8_t *) "pw", 2, s, 32, 16, 1, 1, o, 16)) return -1; return (int64_t) h64(H0, o, 16); }
static int64_t op_misuse_handler(void) { return sodium_set_misuse_handler(NULL); }
static int64_t op_init_again(void) { return sodium_init(); }
static int64_t op_memzero(void) { unsigned char b[64]; memset(b, 1, 64); sodium_memzero(b, 64); return sodium_is_zero(b, 64); }


/* ---- second batch: verify/decrypt directions and the remaining API families ---- */
static int64_t op_aead_dec(void) { unsigned char c[48], k[32], n[12], m[32], o[32]; unsigned long long cl, ml; memset(k, 1, 32); memset(n, 2, 12); memset(m, 3, 32); crypto_aead_chacha20poly1305_ietf_encrypt(c, &cl, m, 32, NULL, 0, NULL, n, k); return crypto_aead_chacha20poly1305_ietf_decrypt(o, &ml, NULL, c, cl, NULL, 0, n, k) * 7 + (int64_t) h64(H0, o, 32); }
static int64_t op_aead_x(void) { unsigned char c[48], k[32], n[24], m[32], o[32]; unsigned long long cl, ml; memset(k, 1, 32); memset(n, 2, 24); memset(m, 3, 32); crypto_aead_xchacha20poly1305_ietf_encrypt(c, &cl, m, 32, m, 5, NULL, n, k); c[3] ^= 1; return crypto_aead_xchacha20poly1305_ietf_decrypt(o, &ml, NULL, c, cl, m, 5, n, k) + (int64_t) h64(H0, c, 48); }
static int64_t op_aead_orig(void) { unsigned char c[48], k[32], n[8], m[32]; unsigned long long cl; memset(k, 1, 32); memset(n, 2, 8); memset(m, 3, 32); crypto_aead_chacha20poly1305_encrypt(c, &cl, m, 32, NULL, 0, NULL, n, k); return (int64_t) h64(H0, c, 48); }
static int64_t op_aegis_dec(void) { unsigned char c[64], k[16], n[16], m[20], o[20]; unsigned long long cl, ml; memset(k, 3, 16); memset(n, 4, 16); memset(m, 5, 20); crypto_aead_aegis128l_encrypt(c, &cl, m, 20, NULL, 0, NULL, n, k); return crypto_aead_aegis128l_decrypt(o, &ml, NULL, c, cl, NULL, 0, n, k) + (int64_t) h64(H0, o, 20); }
static int64_t op_gcm_dec(void) { unsigned char c[48], k[32], n[12], m[32], o[32]; unsigned long long cl, ml; if (!crypto_aead_aes256gcm_is_available()) return 0; memset(k, 1, 32); memset(n, 2, 12); memset(m, 3, 32); crypto_aead_aes256gcm_encrypt(c, &cl, m, 32, NULL, 0, NULL, n, k); return crypto_aead_aes256gcm_decrypt(o, &ml, NULL, c, cl, NULL, 0, n, k) + (int64_t) h64(H0, o, 32); }
static int64_t op_secretbox_open(void) { unsigned char c[48], k[32], n[24], m[32], o[32]; memset(k, 1, 32); memset(n, 2, 24); memset(m, 3, 32); crypto_secretbox_easy(c, m, 32, n, k); return crypto_secretbox_open_easy(o, c, 48, n, k) + (int64_t) h64(H0, o, 32); }
static int64_t op_secretbox_x(void) { unsigned char c[48], k[32], n[24], m[32], o[32]; memset(k, 1, 32); memset(n, 2, 24); memset(m, 3, 32); crypto_secretbox_xchacha20poly1305_easy(c, m, 32, n, k); return crypto_secretbox_xchacha20poly1305_open_easy(o, c, 48, n, k) + (int64_t) h64(H0, c, 48); }
static int64_t op_box(void) { unsigned char pk[32], sk[32], seed[32], c[48], n[24], m[32], o[32]; memset(seed, 6, 32); memset(n, 2, 24); memset(m, 3, 32); crypto_box_seed_keypair(pk, sk, seed); crypto_box_easy(c, m, 32, n, pk, sk); return crypto_box_open_easy(o, c, 48, n, pk, sk) + (int64_t) h64(H0, c, 48); }
static int64_t op_box_x(void) { unsigned char pk[32], sk[32], seed[32], c[48], n[24], m[32]; memset(seed, 6, 32); memset(n, 2, 24); memset(m, 3, 32); crypto_box_curve25519xchacha20poly1305_seed_keypair(pk, sk, seed); crypto_box_curve25519xchacha20poly1305_easy(c, m, 32, n, pk, sk); return (int64_t) h64(H0, c, 48); }
static int64_t op_seal(void) { unsigned char pk[32], sk[32], seed[32], c[80], m[32], o[32]; memset(seed, 6, 32); memset(m, 3, 32); crypto_box_seed_keypair(pk, sk, seed); crypto_box_seal(c, m, 32, pk); return crypto_box_seal_open(o, c, 80, pk, sk) + (int64_t) h64(H0, o, 32); }
static int64_t op_kx(void) { unsigned char pk[32], sk[32], seed[32], rx[32], tx[32]; memset(seed, 6, 32); crypto_kx_seed_keypair(pk, sk, seed); crypto_kx_client_session_keys(rx, tx, pk, sk, pk); return (int64_t) h64(h64(H0, rx, 32), tx, 32); }
static int64_t op_sign_open(void) { unsigned char pk[32], sk[64], seed[32], sm[80], o[16]; unsigned long long l; memset(seed, 8, 32); crypto_sign_seed_keypair(pk, sk, seed); crypto_sign(sm, &l, (const unsigned char *) "0123456789abcdef", 16, sk); return crypto_sign_open(o, &l, sm, 80, pk) + (int64_t) h64(H0, sm, 80); }
static int64_t op_sign_multi(void) { unsigned char pk[32], sk[64], seed[32], sig[64]; crypto_sign_state st; memset(seed, 8, 32); crypto_sign_seed_keypair(pk, sk, seed); crypto_sign_init(&st); crypto_sign_update(&st, seed, 32); crypto_sign_final_create(&st, sig, NULL, sk); crypto_sign_init(&st); crypto_sign_update(&st, seed, 32); return crypto_sign_final_verify(&st, sig, pk) + (int64_t) h64(H0, sig, 64); }
static int64_t op_sign_convert(void) { unsigned char pk[32], sk[64], seed[32], c[32], d[32]; memset(seed, 8, 32); crypto_sign_seed_keypair(pk, sk, seed); crypto_sign_ed25519_pk_to_curve25519(c, pk); crypto_sign_ed25519_sk_to_curve25519(d, sk); return (int64_t) h64(h64(H0, c, 32), d, 32); }
static int64_t op_ed_core(void) { unsigned char p[32], q[32], r[32], n[32]; memset(n, 5, 32); crypto_scalarmult_ed25519_base(p, n); n[0] = 9; crypto_scalarmult_ed25519_base_noclamp(q, n); crypto_core_ed25519_add(r, p, q); crypto_core_ed25519_sub(r, r, q); return crypto_core_ed25519_is_valid_point(r) + (int64_t) h64(H0, r, 32); }
static int64_t op_ed_mult(void) { unsigned char p[32], q[32], n[32]; memset(n, 5, 32); crypto_scalarmult_ed25519_base(p, n); crypto_scalarmult_ed25519(q, n, p); crypto_scalarmult_ed25519_noclamp(p, n, q); return (int64_t) h64(H0, p, 32); }
static int64_t op_ristretto(void) { unsigned char p[32], q[32], h[64], n[32]; memset(h, 7, 64); memset(n, 5, 32); crypto_core_ristretto255_from_hash(p, h); crypto_scalarmult_ristretto255(q, n, p); crypto_scalarmult_ristretto255_base(p, n); crypto_core_ristretto255_add(q, q, p); return crypto_core_ristretto255_is_valid_point(q) + (int64_t) h64(H0, q, 32); }
static int64_t op_h2c(void) { unsigned char p[32], q[32]; crypto_core_ed25519_from_string(p, "ctx", (const unsigned char *) "msg", 3, 2); crypto_core_ed25519_from_string_ro(q, "ctx", (const unsigned char *) "msg", 3, 1); crypto_core_ed25519_from_uniform(p, q); return (int64_t) h64(h64(H0, p, 32), q, 32); }
static int64_t op_scalars(void) { unsigned char a[32], b[32], r[32], w[64]; memset(w, 0x77, 64); crypto_core_ed25519_scalar_reduce(a, w); memset(w, 0x31, 64); crypto_core_ed25519_scalar_reduce(b, w); crypto_core_ed25519_scalar_mul(r, a, b); crypto_core_ed25519_scalar_add(r, r, a); crypto_core_ed25519_scalar_invert(r, r); crypto_core_ed25519_scalar_negate(r, r); crypto_core_ed25519_scalar_complement(r, r); return (int64_t) h64(H0, r, 32); }
static int64_t op_hkdf(void) { unsigned char prk[64], o[70]; crypto_kdf_hkdf_sha256_extract(prk, (const unsigned char *) "salt", 4, (const unsigned char *) "ikm", 3); crypto_kdf_hkdf_sha256_expand(o, 70, "info", 4, prk); crypto_kdf_hkdf_sha512_extract(prk, NULL, 0, o, 70); crypto_kdf_hkdf_sha512_expand(o, 70, NULL, 0, prk); return (int64_t) h64(H0, o, 70); }
static int64_t op_kdf(void) { unsigned char k[32], o[40]; memset(k, 4, 32); crypto_kdf_derive_from_key(o, 40, 77, "context_", k); return (int64_t) h64(H0, o, 40); }
static int64_t op_auth(void) { unsigned char k[32], o[64], m[70]; memset(k, 4, 32); memset(m, 6, 70); crypto_auth(o, m, 70, k); if (crypto_auth_verify(o, m, 70, k)) return -1; crypto_auth_hmacsha256(o, m, 70, k); crypto_auth_hmacsha512(o + 32, m, 70, k); return (int64_t) h64(H0, o, 64) + crypto_auth_hmacsha256_verify(o, m, 70, k); }
static int64_t op_hash256(void) { unsigned char o[32]; crypto_hash_sha256_state st; crypto_hash_sha256_init(&st); crypto_hash_sha256_update(&st, (const unsigned char *) "abc", 3); crypto_hash_sha256_update(&st, (const unsigned char *) "def", 3); crypto_hash_sha256_final(&st, o); return (int64_t) h64(H0, o, 32); }
static int64_t op_generichash_multi(void) { unsigned char o[64], k[32], m[300]; crypto_generichash_state st; memset(k, 4, 32); memset(m, 6, 300); crypto_generichash_init(&st, k, 32, 64); crypto_generichash_update(&st, m, 129); crypto_generichash_update(&st, m + 129, 171); crypto_generichash_final(&st, o, 64); return (int64_t) h64(H0, o, 64); }
static int64_t op_onetimeauth_multi(void) { unsigned char o[16], k[32], m[100]; crypto_onetimeauth_state st; memset(k, 9, 32); memset(m, 7, 100); crypto_onetimeauth_init(&st, k); crypto_onetimeauth_update(&st, m, 33); crypto_onetimeauth_update(&st, m + 33, 67); crypto_onetimeauth_final(&st, o); return crypto_onetimeauth_verify(o, m, 100, k) + (int64_t) h64(H0, o, 16); }
static int64_t op_siphashx(void) { unsigned char o[16], k[16]; memset(k, 1, 16); crypto_shorthash_siphashx24(o, (const unsigned char *) "abcdefghij", 10, k); return (int64_t) h64(H0, o, 16); }
static int64_t op_streams(void) { unsigned char o[96], k[32], n[24]; memset(k, 9, 32); memset(n, 1, 24); crypto_stream_xsalsa20(o, 96, n, k); crypto_stream_xchacha20_xor(o, o, 96, n, k); crypto_stream_salsa2012_xor(o, o, 96, n, k); crypto_stream_salsa208_xor(o, o, 96, n, k); crypto_stream_chacha20_ietf_xor_ic(o, o, 96, n, 3, k); return (int64_t) h64(H0, o, 96); }
static int64_t op_cores(void) { unsigned char o[64], k[32], in[16]; memset(k, 9, 32); memset(in, 1, 16); crypto_core_hchacha20(o, in, k, NULL); crypto_core_hsalsa20(o + 32, in, k, NULL); crypto_core_salsa20(o, in, k, NULL); return (int64_t) h64(H0, o, 64); }
static int64_t op_secretstream_pull(void) { crypto_secretstream_xchacha20poly1305_state s, p; unsigned char h[24], k[32], c[40], o[8], tg; unsigned long long l; memset(k, 1, 32); crypto_secretstream_xchacha20poly1305_init_push(&s, h, k); crypto_secretstream_xchacha20poly1305_push(&s, c, NULL, (const unsigned char *) "abc", 3, NULL, 0, 2); crypto_secretstream_xchacha20poly1305_init_pull(&p, h, k); return crypto_secretstream_xchacha20poly1305_pull(&p, o, &l, &tg, c, 20, NULL, 0) * 100 + tg + (int64_t) h64(H0, o, 3); }
static int64_t op_pwstr_verify(void) { return crypto_pwhash_str_verify("$argon2id$v=19$m=8,t=1,p=1$AQIDBAUGBwgJCgsMDQ4PEA$ujGdxyOb7ULOSjaQvFUmGgGSNhe4m3kVvWuqrK1mRWg", "pw", 2) * 10 + crypto_pwhash_str_needs_rehash("$argon2id$v=19$m=8,t=1,p=1$AQIDBAUGBwgJCgsMDQ4PEA$ujGdxyOb7ULOSjaQvFUmGgGSNhe4m3kVvWuqrK1mRWg", 1, 8192); }
static int64_t op_pwstr(void) { char s[128]; if (crypto_pwhash_str(s, "pw", 2, 1, 8192)) return -1; return crypto_pwhash_str_verify(s, "pw", 2); }
static int64_t op_scrypt_str(void) { return crypto_pwhash_scryptsalsa208sha256_str_needs_rehash("$7$C6..../....SodiumChloride$kBGj9fHznVYFQMEn/qDCfrDevf9YDtcDdKvEqHJLV8D", 32768, 16777216); }
static int64_t op_codecs(void) { char t[100]; unsigned char b[40], o[40]; size_t bl; memset(b, 0xa7, 40); sodium_bin2hex(t, 100, b, 40); sodium_hex2bin(o, 40, t, 80, NULL, &bl, NULL); sodium_bin2base64(t, 100, o, 40, sodium_base64_VARIANT_URLSAFE); return sodium_base642bin(b, 40, t, strlen(t), NULL, &bl, NULL, sodium_base64_VARIANT_URLSAFE) + (int64_t) h64(H0, t, strlen(t)) + (int64_t) bl; }
static int64_t op_pad(void) { unsigned char b[64]; size_t pl, ul; memset(b, 5, 64); sodium_pad(&pl, b, 21, 16, 64); sodium_unpad(&ul, b, pl, 16); return (int64_t) (pl * 100 + ul); }
static int64_t op_utils(void) { unsigned char a[24], b[24]; memset(a, 0xff, 24); memset(b, 1, 24); sodium_increment(a, 24); sodium_add(a, b, 24); sodium_sub(a, b, 12); sodium_stackzero(128); return sodium_compare(a, b, 24) * 4 + sodium_memcmp(a, b, 24) * 2 + sodium_is_zero(a, 24) + (int64_t) h64(H0, a, 24); }
static int64_t op_verify(void) { unsigned char a[64], b[64]; memset(a, 3, 64); memset(b, 3, 64); b[63] = 4; return crypto_verify_16(a, b) * 4 + crypto_verify_32(a, b) * 2 + crypto_verify_64(a, b); }
static int64_t op_detrng(void) { unsigned char o[100], s[32]; memset(s, 2, 32); randombytes_buf_deterministic(o, 100, s); return (int64_t) h64(H0, o, 100); }
static int64_t op_argon2i(void) { unsigned char o[16], s[16]; memset(s, 2, 16); if (crypto_pwhash(o, 16, "pw", 2, s, 3, 8192, crypto_pwhash_ALG_ARGON2I13)) return -1; return (int64_t) h64(H0, o, 16); }
static int64_t op_allocarray(void) { unsigned char *p = sodium_allocarray(7, 9); int64_t r; if (!p) return -1; r = p[0] + p[62]; sodium_mlock(p, 63); sodium_munlock(p, 63); sodium_free(p); return r; }

/* ---- third batch: the remaining public wrappers (detached / afternm / NaCl forms, multipart variants, aliases) ---- */
static int64_t op_aegis_forms(void) { unsigned char c[64], t[32], k[32], n[32], m[20], o[20]; unsigned long long l; memset(k, 3, 32); memset(n, 4, 32); memset(m, 5, 20); crypto_aead_aegis128l_encrypt_detached(c, t, &l, m, 20, m, 7, NULL, n, k); if (crypto_aead_aegis128l_decrypt_detached(o, NULL, c, 20, t, m, 7, n, k)) return -1;
    crypto_aead_aegis256_encrypt_detached(c, t, &l, m, 20, NULL, 0, NULL, n, k); if (crypto_aead_aegis256_decrypt_detached(o, NULL, c, 20, t, NULL, 0, n, k)) return -2; crypto_aead_aegis256_encrypt(c, &l, m, 20, NULL, 0, NULL, n, k); return crypto_aead_aegis256_decrypt(o, &l, NULL, c, 52, NULL, 0, n, k) + (int64_t) h64(H0, c, 52); }
static int64_t op_gcm_forms(void) { unsigned char c[48], t[16], k[32], n[12], m[32], o[32]; unsigned long long l; crypto_aead_aes256gcm_state st; if (!crypto_aead_aes256gcm_is_available()) return 0; memset(k, 1, 32); memset(n, 2, 12); memset(m, 3, 32);
    crypto_aead_aes256gcm_beforenm(&st, k); crypto_aead_aes256gcm_encrypt_afternm(c, &l, m, 32, NULL, 0, NULL, n, &st); if (crypto_aead_aes256gcm_decrypt_afternm(o, &l, NULL, c, 48, NULL, 0, n, &st)) return -1;
    crypto_aead_aes256gcm_encrypt_detached(c, t, &l, m, 32, m, 3, NULL, n, k); return crypto_aead_aes256gcm_decrypt_detached(o, NULL, c, 32, t, m, 3, n, k) + (int64_t) h64(h64(H0, c, 32), t, 16); }
static int64_t op_aead_orig_dec(void) { unsigned char c[48], t[16], k[32], n[8], m[32], o[32]; unsigned long long cl, ml; memset(k, 1, 32); memset(n, 2, 8); memset(m, 3, 32); crypto_aead_chacha20poly1305_encrypt(c, &cl, m, 32, NULL, 0, NULL, n, k); if (crypto_aead_chacha20poly1305_decrypt(o, &ml, NULL, c, cl, NULL, 0, n, k)) return -1;
    crypto_aead_chacha20poly1305_encrypt_detached(c, t, &cl, m, 32, NULL, 0, NULL, n, k); return crypto_aead_chacha20poly1305_decrypt_detached(o, NULL, c, 32, t, NULL, 0, n, k) + (int64_t) h64(H0, t, 16); }
static int64_t op_auth_multi(void) { unsigned char k[32], o[64], m[70]; crypto_auth_hmacsha512256_state s; crypto_auth_hmacsha512_state s5; memset(k, 4, 32); memset(m, 6, 70); crypto_auth_hmacsha512256_init(&s, k, 32); crypto_auth_hmacsha512256_update(&s, m, 30); crypto_auth_hmacsha512256_update(&s, m + 30, 40); crypto_auth_hmacsha512256_final(&s, o);
    crypto_auth_hmacsha512_init(&s5, k, 17); crypto_auth_hmacsha512_update(&s5, m, 70); crypto_auth_hmacsha512_final(&s5, o + 32 - 32); crypto_auth_hmacsha512(o, m, 70, k); return crypto_auth_hmacsha512_verify(o, m, 70, k) + (int64_t) h64(H0, o, 64); }
static int64_t op_nacl_forms(void) { unsigned char pk[32], sk[32], seed[32], k[32], n[24], m[64], c[64], o[64]; memset(seed, 6, 32); memset(n, 2, 24); memset(m, 3, 64); memset(m, 0, 32); memset(k, 1, 32); crypto_box_seed_keypair(pk, sk, seed);
    crypto_secretbox(c, m, 64, n, k); if (crypto_secretbox_open(o, c, 64, n, k)) return -1; crypto_box(c, m, 64, n, pk, sk); if (crypto_box_open(o, c, 64, n, pk, sk)) return -2; crypto_box_beforenm(k, pk, sk); crypto_box_afternm(c, m, 64, n, k); return crypto_box_open_afternm(o, c, 64, n, k) + (int64_t) h64(H0, c, 64); }
static int64_t op_box_forms(void) { unsigned char pk[32], sk[32], seed[32], k[32], n[24], m[32], c[48], t[16], o[32]; memset(seed, 6, 32); memset(n, 2, 24); memset(m, 3, 32); crypto_box_seed_keypair(pk, sk, seed); crypto_box_beforenm(k, pk, sk);
    crypto_box_detached(c, t, m, 32, n, pk, sk); if (crypto_box_open_detached(o, c, t, 32, n, pk, sk)) return -1; crypto_box_detached_afternm(c, t, m, 32, n, k); if (crypto_box_open_detached_afternm(o, c, t, 32, n, k)) return -2;
    crypto_box_easy_afternm(c, m, 32, n, k); return crypto_box_open_easy_afternm(o, c, 48, n, k) + (int64_t) h64(H0, c, 48); }
static int64_t op_boxx_forms(void) { unsigned char pk[32], sk[32], seed[32], k[32], n[24], m[32], c[80], t[16], o[32]; memset(seed, 6, 32); memset(n, 2, 24); memset(m, 3, 32); crypto_box_curve25519xchacha20poly1305_seed_keypair(pk, sk, seed); crypto_box_curve25519xchacha20poly1305_beforenm(k, pk, sk);
    crypto_box_curve25519xchacha20poly1305_detached(c, t, m, 32, n, pk, sk); if (crypto_box_curve25519xchacha20poly1305_open_detached(o, c, t, 32, n, pk, sk)) return -1; crypto_box_curve25519xchacha20poly1305_detached_afternm(c, t, m, 32, n, k); if (crypto_box_curve25519xchacha20poly1305_open_detached_afternm(o, c, t, 32, n, k)) return -2;
    crypto_box_curve25519xchacha20poly1305_easy_afternm(c, m, 32, n, k); if (crypto_box_curve25519xchacha20poly1305_open_easy_afternm(o, c, 48, n, k)) return -3; crypto_box_curve25519xchacha20poly1305_easy(c, m, 32, n, pk, sk); if (crypto_box_curve25519xchacha20poly1305_open_easy(o, c, 48, n, pk, sk)) return -4;
    crypto_box_curve25519xchacha20poly1305_seal(c, m, 32, pk); return crypto_box_curve25519xchacha20poly1305_seal_open(o, c, 80, pk, sk) + (int64_t) h64(H0, o, 32); }
static int64_t op_ed_scalars2(void) { unsigned char a[32], b[32], r[32], w[64]; memset(w, 0x77, 64); crypto_core_ristretto255_scalar_reduce(a, w); memset(w, 0x31, 64); crypto_core_ristretto255_scalar_reduce(b, w); crypto_core_ristretto255_scalar_mul(r, a, b); crypto_core_ristretto255_scalar_add(r, r, a); crypto_core_ristretto255_scalar_sub(r, r, b);
    crypto_core_ed25519_scalar_sub(r, r, b); crypto_core_ristretto255_scalar_invert(r, r); crypto_core_ristretto255_scalar_negate(r, r); crypto_core_ristretto255_scalar_complement(r, r); return crypto_core_ristretto255_scalar_is_canonical(r) * 2 + crypto_core_ed25519_scalar_is_canonical(w) + (int64_t) h64(H0, r, 32); }
static int64_t op_ris_h2c(void) { unsigned char p[32], q[32], r[32]; crypto_core_ristretto255_from_string(p, "ctx", (const unsigned char *) "msg", 3, 2); crypto_core_ristretto255_from_string_ro(q, NULL, (const unsigned char *) "msg", 3, 1); crypto_core_ristretto255_sub(r, p, q); return (int64_t) h64(h64(H0, r, 32), q, 32); }
static int64_t op_randoms(void) { unsigned char p[32], s[32]; crypto_core_ed25519_random(p); crypto_core_ristretto255_random(s); crypto_core_ed25519_scalar_random(s); crypto_core_ristretto255_scalar_random(s); return crypto_core_ed25519_is_valid_point(p) + crypto_core_ed25519_scalar_is_canonical(s) * 2 + (randombytes_random() ? 0 : 0); }
static int64_t op_hash_aliases(void) { unsigned char o[64], m[100]; crypto_generichash_blake2b_state st; memset(m, 9, 100); crypto_hash(o, m, 100); crypto_hash_sha256(o + 32, m, 100); crypto_generichash_blake2b_init_salt_personal(&st, m, 16, 32, m + 16, m + 32); crypto_generichash_blake2b_update(&st, m, 100); crypto_generichash_blake2b_final(&st, o, 32); return (int64_t) h64(H0, o, 64); }
static int64_t op_hkdf_multi(void) { unsigned char prk[64]; crypto_kdf_hkdf_sha256_state s2; crypto_kdf_hkdf_sha512_state s5; crypto_kdf_hkdf_sha256_extract_init(&s2, (const unsigned char *) "salt", 4); crypto_kdf_hkdf_sha256_extract_update(&s2, (const unsigned char *) "ik", 2); crypto_kdf_hkdf_sha256_extract_update(&s2, (const unsigned char *) "m", 1); crypto_kdf_hkdf_sha256_extract_final(&s2, prk);
    crypto_kdf_hkdf_sha512_extract_init(&s5, NULL, 0); crypto_kdf_hkdf_sha512_extract_update(&s5, prk, 32); crypto_kdf_hkdf_sha512_extract_final(&s5, prk); return (int64_t) h64(H0, prk, 64); }
static int64_t op_kx2(void) { unsigned char pk[32], sk[32], pk2[32], sk2[32], rx[32], tx[32]; crypto_kx_keypair(pk, sk); memset(sk2, 7, 32); crypto_kx_seed_keypair(pk2, sk2, sk2); return crypto_kx_server_session_keys(rx, tx, pk2, sk2, pk) + crypto_kx_client_session_keys(rx, NULL, pk, sk, pk2); }
static int64_t op_argon2i_str(void) { char s[128]; if (crypto_pwhash_argon2i_str(s, "pw", 2, 3, 8192)) return -1; if (crypto_pwhash_argon2i_str_verify(s, "pw", 2)) return -2; if (crypto_pwhash_str_alg(s, "pw", 2, 1, 8192, crypto_pwhash_ALG_ARGON2ID13)) return -3; return crypto_pwhash_argon2i_str_needs_rehash(s, 3, 8192) + crypto_pwhash_argon2id_str_needs_rehash(s, 1, 8192) * 10 + (crypto_pwhash_alg_default() == 2); }
static int64_t op_scrypt_hl(void) { unsigned char o[16], sl[32]; char s[102]; memset(sl, 3, 32); if (crypto_pwhash_scryptsalsa208sha256(o, 16, "pw", 2, sl, 32768, 16777216)) return -1; if (crypto_pwhash_scryptsalsa208sha256_str(s, "pw", 2, 32768, 16777216)) return -2; return crypto_pwhash_scryptsalsa208sha256_str_verify(s, "pw", 2) + (int64_t) h64(H0, o, 16); }
static int64_t op_sign_misc(void) { unsigned char pk[32], sk[64], sd[32], p2[32]; crypto_sign_keypair(pk, sk); crypto_sign_ed25519_sk_to_seed(sd, sk); crypto_sign_ed25519_sk_to_pk(p2, sk); crypto_sign_ed25519_keypair(pk, sk); return memcmp(sd, sk, 0) + (p2[0] & 0); }
static int64_t op_stream_oneshots(void) { unsigned char o[80], k[32], n[24]; memset(k, 9, 32); memset(n, 1, 24); crypto_stream(o, 80, n, k); crypto_stream_xor(o, o, 80, n, k); crypto_stream_salsa2012(o, 80, n, k); crypto_stream_salsa208(o, 80, n, k); crypto_stream_xchacha20(o, 80, n, k); crypto_stream_xchacha20_xor_ic(o, o, 80, n, 2, k);
    crypto_stream_salsa20_xor_ic(o, o, 80, n, 2, k); crypto_stream_xsalsa20_xor(o, o, 80, n, k); crypto_stream_xsalsa20_xor_ic(o, o, 80, n, 2, k); crypto_stream_chacha20_ietf(o + 8, 64, n, k); return (int64_t) h64(H0, o, 80); }
static int64_t op_secretstream_rekey(void) { crypto_secretstream_xchacha20poly1305_state s; unsigned char h[24], k[32]; memset(k, 1, 32); memset(h, 2, 24); crypto_secretstream_xchacha20poly1305_init_pull(&s, h, k); crypto_secretstream_xchacha20poly1305_rekey(&s); return (int64_t) h64(H0, &s, sizeof s) + crypto_secretstream_xchacha20poly1305_tag_final() + (int64_t) sodium_base64_encoded_len(10, 1); }
typedef int64_t (*op_fn)(void);
/* objects shared by all threads and only ever passed through const parameters: precomputed AES-GCM key schedule, keys, nonces, key pairs.
 * Prepared once (ops_shared_setup) before any thread uses them; a library that writes to them (lazy completion, scratch use) races. */
static CRYPTO_ALIGN(16) crypto_aead_aes256gcm_state SH_GCM; static unsigned char SH_K[32], SH_N[24], SH_SK[64], SH_PK[32], SH_BK[32], SH_M[320]; static int sh_ready;
static void ops_shared_setup(void)
{
    unsigned char seed[32], bsk[32], bpk[32];
    memset(SH_K, 0x21, 32); memset(SH_N, 0x22, 24); memset(seed, 0x23, 32); memset(SH_M, 0x24, sizeof SH_M);
    crypto_sign_seed_keypair(SH_PK, SH_SK, seed); crypto_box_seed_keypair(bpk, bsk, seed); if (crypto_box_beforenm(SH_BK, bpk, bsk)) memset(SH_BK, 1, 32);
    if (crypto_aead_aes256gcm_is_available()) crypto_aead_aes256gcm_beforenm(&SH_GCM, SH_K);
    sh_ready = 1;
}
static int64_t op_shared_gcm(void)
{
    unsigned char c[320 + 16], o[320]; unsigned long long l; uint64_t h = H0; int r;
    if (!sh_ready || !crypto_aead_aes256gcm_is_available()) return 0;
    crypto_aead_aes256gcm_encrypt_afternm(c, &l, SH_M, 300, SH_N, 9, NULL, SH_N, &SH_GCM); h = h64(h, c, 316);
    r = crypto_aead_aes256gcm_decrypt_afternm(o, &l, NULL, c, 316, SH_N, 9, SH_N, &SH_GCM); h = h64(h, o, 300); h = h64(h, &r, sizeof r);
    crypto_aead_aes256gcm_encrypt_detached_afternm(c, o, &l, SH_M, 17, NULL, 0, NULL, SH_N, &SH_GCM); h = h64(h, c, 17); h = h64(h, o, 16);
    return (int64_t) h;
}
static int64_t op_shared_keys(void)
{
    unsigned char c[120], t[64], q[32]; unsigned long long l; uint64_t h = H0; crypto_generichash_state gs;
    if (!sh_ready) return 0;
    crypto_secretbox_easy(c, SH_M, 70, SH_N, SH_K); h = h64(h, c, 86);
    crypto_box_easy_afternm(c, SH_M, 33, SH_N, SH_BK); h = h64(h, c, 49);
    crypto_aead_chacha20poly1305_ietf_encrypt(c, &l, SH_M, 65, SH_N, 5, NULL, SH_N, SH_K); h = h64(h, c, 81);
    crypto_aead_aegis256_encrypt(c, &l, SH_M, 40, SH_N, 3, NULL, SH_M, SH_K); h = h64(h, c, 72);
    crypto_onetimeauth(t, SH_M, 100, SH_K); h = h64(h, t, 16);
    crypto_generichash_init(&gs, SH_K, 32, 32); crypto_generichash_update(&gs, SH_M, 200); crypto_generichash_final(&gs, t, 32); h = h64(h, t, 32);
    crypto_sign_detached(t, NULL, SH_M, 50, SH_SK); h = h64(h, t, 64); { int r = crypto_sign_verify_detached(t, SH_M, 50, SH_PK); h = h64(h, &r, sizeof r); }
    crypto_scalarmult(q, SH_K, SH_PK); h = h64(h, q, 32);
    crypto_auth_hmacsha512256(t, SH_M, 130, SH_K); h = h64(h, t, 32);
    crypto_kdf_derive_from_key(t, 32, 7, "sharedct", SH_K); h = h64(h, t, 32);
    return (int64_t) h;
}

static const struct { const char *name; op_fn fn; } OPS[] = {
    { "runtime_flags", op_flags }, { "randombytes_implementation_name", op_rngname }, { "sodium_malloc/free", op_malloc }, { "sodium_mprotect_*", op_mprotect },
    { "crypto_generichash", op_generichash }, { "crypto_onetimeauth", op_onetimeauth }, { "crypto_stream_chacha20", op_chacha }, { "crypto_stream_salsa20", op_salsa },
    { "crypto_scalarmult_base", op_scalarmult }, { "crypto_aead_aegis128l", op_aegis }, { "crypto_aead_aegis256", op_aegis256 }, { "crypto_pwhash(argon2id)", op_pwhash },
    { "randombytes_buf", op_randombuf }, { "randombytes_uniform", op_uniform }, { "crypto_secretbox_easy", op_secretbox }, { "crypto_aead_chacha20poly1305_ietf", op_aead },
    { "crypto_aead_aes256gcm", op_gcm }, { "crypto_sign", op_sign }, { "crypto_hash_sha512", op_hash }, { "crypto_shorthash", op_shorthash },
    { "crypto_secretstream", op_secretstream }, { "crypto_box_keypair", op_keygen }, { "crypto_pwhash_scrypt_ll", op_scrypt }, { "sodium_set_misuse_handler", op_misuse_handler },
    { "sodium_init(again)", op_init_again }, { "sodium_memzero", op_memzero },
    { "aead_chacha20poly1305_ietf_decrypt", op_aead_dec }, { "aead_xchacha20poly1305_ietf(forged)", op_aead_x }, { "aead_chacha20poly1305(orig)", op_aead_orig }, { "aead_aegis128l_decrypt", op_aegis_dec },
    { "aead_aes256gcm_decrypt", op_gcm_dec }, { "secretbox_open_easy", op_secretbox_open }, { "secretbox_xchacha20poly1305", op_secretbox_x }, { "box_easy/open_easy", op_box }, { "box_xchacha20", op_box_x },
    { "box_seal/seal_open", op_seal }, { "crypto_kx", op_kx }, { "crypto_sign_open", op_sign_open }, { "crypto_sign_multipart", op_sign_multi }, { "ed25519_to_curve25519", op_sign_convert },
    { "core_ed25519 add/sub/valid", op_ed_core }, { "scalarmult_ed25519", op_ed_mult }, { "ristretto255", op_ristretto }, { "hash-to-curve", op_h2c }, { "ed25519 scalars", op_scalars },
    { "hkdf", op_hkdf }, { "kdf_derive", op_kdf }, { "auth hmac x3 + verify", op_auth }, { "sha256 multipart", op_hash256 }, { "generichash multipart", op_generichash_multi },
    { "onetimeauth multipart + verify", op_onetimeauth_multi }, { "siphashx24", op_siphashx }, { "stream variants", op_streams }, { "core h*/salsa", op_cores }, { "secretstream pull", op_secretstream_pull },
    { "pwhash_str_verify/needs_rehash", op_pwstr_verify }, { "pwhash_str", op_pwstr }, { "scrypt needs_rehash", op_scrypt_str }, { "hex/base64", op_codecs }, { "pad/unpad", op_pad },
    { "increment/add/sub/compare", op_utils }, { "crypto_verify_n", op_verify }, { "randombytes_buf_deterministic", op_detrng }, { "pwhash argon2i", op_argon2i }, { "sodium_allocarray/mlock", op_allocarray },
    { "aegis detached/256 forms", op_aegis_forms }, { "aes256gcm afternm/detached", op_gcm_forms }, { "chacha20poly1305(orig) decrypt/detached", op_aead_orig_dec }, { "hmac multipart + sha512 verify", op_auth_multi },
    { "NaCl secretbox/box/afternm", op_nacl_forms }, { "box detached/afternm forms", op_box_forms }, { "box xchacha20 all forms + seal", op_boxx_forms }, { "ristretto255 scalars", op_ed_scalars2 },
    { "ristretto255 from_string", op_ris_h2c }, { "random points/scalars", op_randoms }, { "crypto_hash/sha256/blake2b salt-personal", op_hash_aliases }, { "hkdf extract multipart", op_hkdf_multi },
    { "kx keypair/server", op_kx2 }, { "argon2i str / str_alg / needs_rehash", op_argon2i_str }, { "scrypt high-level + str", op_scrypt_hl }, { "sign keypair/sk_to_*", op_sign_misc },
    { "stream one-shots / xor_ic", op_stream_oneshots }, { "secretstream rekey + constants", op_secretstream_rekey },
    { "randombytes_buf(large requests)", op_randombuf_large }, { "shared const aes256gcm_state (afternm, 300 bytes)", op_shared_gcm }, { "shared const keys/nonces/key pairs", op_shared_keys } };
#define NOPS ((int) (sizeof OPS / sizeof OPS[0]))
#endif
