/* operation table shared by the scheduler harness (c19.c) and the free-running TSan/helgrind complement (c19_free.c) */
#ifndef C19_OPS_H
#define C19_OPS_H
#include <sodium.h>
#include <stdint.h>
#include <string.h>
/* ---------------- thread bodies ---------------- */
static uint64_t h64(uint64_t h, const void *p, size_t n) { const unsigned char *b = p; size_t i; for (i = 0; i < n; i++) { h ^= b[i]; h *= 0x100000001b3ULL; } return h; }
#define H0 0xcbf29ce484222325ULL

static int64_t op_flags(void)
{
    return sodium_runtime_has_sse2() | sodium_runtime_has_sse3() << 1 | sodium_runtime_has_ssse3() << 2 | sodium_runtime_has_sse41() << 3 | sodium_runtime_has_avx() << 4 |
           sodium_runtime_has_avx2() << 5 | sodium_runtime_has_avx512f() << 6 | sodium_runtime_has_pclmul() << 7 | sodium_runtime_has_aesni() << 8 | sodium_runtime_has_rdrand() << 9 |
           crypto_aead_aes256gcm_is_available() << 10;
}
static int64_t op_rngname(void) { return strcmp(randombytes_implementation_name(), "sysrandom") == 0; }
static int64_t op_malloc(void) { unsigned char *p = sodium_malloc(40); uint64_t h; if (!p) return -1; h = h64(H0, p - 16, 16); h = h64(h, p, 40); p[0] = 1; p[39] = 2; sodium_free(p); return (int64_t) h; }
static int64_t op_mprotect(void) { unsigned char *p = sodium_malloc(100); int r; if (!p) return -1; r = sodium_mprotect_readonly(p); r |= sodium_mprotect_noaccess(p) << 1; r |= sodium_mprotect_readwrite(p) << 2; p[5] = 1; sodium_free(p); return r; }
static int64_t op_generichash(void) { unsigned char o[32], m[200]; memset(m, 7, sizeof m); crypto_generichash(o, 32, m, sizeof m, NULL, 0); return (int64_t) h64(H0, o, 32); }
static int64_t op_onetimeauth(void) { unsigned char o[16], m[100], k[32]; memset(m, 7, sizeof m); memset(k, 9, 32); crypto_onetimeauth(o, m, sizeof m, k); return (int64_t) h64(H0, o, 16); }
static int64_t op_chacha(void) { unsigned char o[128], k[32], n[8]; memset(k, 9, 32); memset(n, 1, 8); crypto_stream_chacha20(o, sizeof o, n, k); return (int64_t) h64(H0, o, sizeof o); }
static int64_t op_salsa(void) { unsigned char o[128], k[32], n[8]; memset(k, 9, 32); memset(n, 1, 8); crypto_stream_salsa20(o, sizeof o, n, k); return (int64_t) h64(H0, o, sizeof o); }
static int64_t op_scalarmult(void) { unsigned char q[32], n[32]; memset(n, 5, 32); crypto_scalarmult_base(q, n); return (int64_t) h64(H0, q, 32); }
static int64_t op_aegis(void) { unsigned char c[64], k[16], n[16], m[20]; unsigned long long cl; memset(k, 3, 16); memset(n, 4, 16); memset(m, 5, 20); crypto_aead_aegis128l_encrypt(c, &cl, m, 20, NULL, 0, NULL, n, k); return (int64_t) h64(H0, c, (size_t) cl); }
static int64_t op_aegis256(void) { unsigned char c[64], k[32], n[32], m[20]; unsigned long long cl; memset(k, 3, 32); memset(n, 4, 32); memset(m, 5, 20); crypto_aead_aegis256_encrypt(c, &cl, m, 20, NULL, 0, NULL, n, k); return (int64_t) h64(H0, c, (size_t) cl); }
static int64_t op_pwhash(void) { unsigned char o[16], s[16]; memset(s, 2, 16); if (crypto_pwhash(o, 16, "pw", 2, s, 1, 8192, crypto_pwhash_ALG_ARGON2ID13)) return -1; return (int64_t) h64(H0, o, 16); }
static int64_t op_randombuf(void) { unsigned char b[24]; randombytes_buf(b, sizeof b); return (int64_t) h64(H0, b, sizeof b); }
static int64_t op_uniform(void) { return (int64_t) randombytes_uniform(1000); }
static int64_t op_secretbox(void) { unsigned char c[48], k[32], n[24], m[32]; memset(k, 1, 32); memset(n, 2, 24); memset(m, 3, 32); crypto_secretbox_easy(c, m, 32, n, k); return (int64_t) h64(H0, c, 48); }
static int64_t op_aead(void) { unsigned char c[48], k[32], n[12], m[32]; unsigned long long cl; memset(k, 1, 32); memset(n, 2, 12); memset(m, 3, 32); crypto_aead_chacha20poly1305_ietf_encrypt(c, &cl, m, 32, NULL, 0, NULL, n, k); return (int64_t) h64(H0, c, 48); }
static int64_t op_gcm(void) { unsigned char c[48], k[32], n[12], m[32]; unsigned long long cl; if (!crypto_aead_aes256gcm_is_available()) return 0; memset(k, 1, 32); memset(n, 2, 12); memset(m, 3, 32); crypto_aead_aes256gcm_encrypt(c, &cl, m, 32, NULL, 0, NULL, n, k); return (int64_t) h64(H0, c, 48); }
static int64_t op_sign(void) { unsigned char pk[32], sk[64], seed[32], sig[64]; memset(seed, 8, 32); crypto_sign_seed_keypair(pk, sk, seed); crypto_sign_detached(sig, NULL, (const unsigned char *) "abc", 3, sk); return (int64_t) h64(H0, sig, 64) ^ crypto_sign_verify_detached(sig, (const unsigned char *) "abc", 3, pk); }
static int64_t op_hash(void) { unsigned char o[64]; crypto_hash_sha512(o, (const unsigned char *) "abc", 3); return (int64_t) h64(H0, o, 64); }
static int64_t op_shorthash(void) { unsigned char o[8], k[16]; memset(k, 1, 16); crypto_shorthash(o, (const unsigned char *) "abc", 3, k); return (int64_t) h64(H0, o, 8); }
static int64_t op_secretstream(void) { crypto_secretstream_xchacha20poly1305_state st; unsigned char h[24], k[32], c[40]; memset(k, 1, 32); crypto_secretstream_xchacha20poly1305_init_push(&st, h, k); crypto_secretstream_xchacha20poly1305_push(&st, c, NULL, (const unsigned char *) "abc", 3, NULL, 0, 0); return (int64_t) h64(h64(H0, h, 24), c, 20); }
static int64_t op_keygen(void) { unsigned char pk[32], sk[32]; crypto_box_keypair(pk, sk); return (int64_t) h64(h64(H0, pk, 32), sk, 32); }
static int64_t op_scrypt(void) { unsigned char o[16], s[32]; memset(s, 2, 32); if (crypto_pwhash_scryptsalsa208sha256_ll((const uint8_t *) "pw", 2, s, 32, 16, 1, 1, o, 16)) return -1; return (int64_t) h64(H0, o, 16); }
static int64_t op_misuse_handler(void) { return sodium_set_misuse_handler(NULL); }
static int64_t op_init_again(void) { return sodium_init(); }
static int64_t op_memzero(void) { unsigned char b[64]; memset(b, 1, 64); sodium_memzero(b, 64); return sodium_is_zero(b, 64); }


/* ---- second batch: verify/decrypt directions and the remaining API families ---- */
static int64_t op_aead_dec(void) { unsigned char c[48], k[32], n[12], m[32], o[32]; unsigned long long cl, ml; memset(k, 1, 32); memset(n, 2, 12); memset(m, 3, 32); crypto_aead_chacha20poly1305_ietf_encrypt(c, &cl, m, 32, NULL, 0, NULL, n, k); return crypto_aead_chacha20poly1305_ietf_decrypt(o, &ml, NULL, c, cl, NULL, 0, n, k) * 7 + (int64_t) h64(H0, o, 32); }
static int64_t op_aead_x(void) { unsigned char c[48], k[32], n[24], m[32], o[32]; unsigned long long cl, ml; memset(k, 1, 32); memset(n, 2, 24); memset(m, 3, 32); crypto_aead_xchacha20poly1305_ietf_encrypt(c, &cl, m, 32, m, 5, NULL, n, k); c[3] ^= 1; return crypto_aead_xchacha20poly1305_ietf_decrypt(o, &ml, NULL, c, cl, m, 5, n, k) + (int64_t) h64(H0, c, 48); }
static int64_t op_aead_orig(void) { unsigned char c[48], k[32], n[8], m[32]; unsigned long long cl; memset(k, 1, 32); memset(n, 2, 8); memset(m, 3, 32); crypto_aead_chacha20poly1305_encrypt(c, &cl, m, 32, NULL, 0, NULL, n, k); return (int64_t) h64(H0, c, 48); }
static int64_t op_aegis_dec(void) { unsigned char c[64], k[16], n[16], m[20], o[20]; unsigned long long cl, ml; memset(k, 3, 16); memset(n, 4, 16); memset(m, 5, 20); crypto_aead_aegis128l_encrypt(c, &cl, m, 20, NULL, 0, NULL, n, k); return crypto_aead_aegis128l_decrypt(o, &ml, NULL, c, cl, NULL, 0, n, k) + (int64_t) h64(H0, o, 20); }
static int64_t op_gcm_dec(void) { unsigned char c[48], k[32], n[12], m[32], o[32]; unsigned long long cl, ml; if (!crypto_aead_aes256gcm_is_available()) return 0; memset(k, 1, 32); memset(n, 2, 12); memset(m, 3, 32); crypto_aead_aes256gcm_encrypt(c, &cl, m, 32, NULL, 0, NULL, n, k); return crypto_aead_aes256gcm_decrypt(o, &ml, NULL, c, cl, NULL, 0, n, k) + (int64_t) h64(H0, o, 32); }
static int64_t op_secretbox_open(void) { unsigned char c[48], k[32], n[24], m[32], o[32]; memset(k, 1, 32); memset(n, 2, 24); memset(m, 3, 32); crypto_secretbox_easy(c, m, 32, n, k); return crypto_secretbox_open_easy(o, c, 48, n, k) + (int64_t) h64(H0, o, 32); }
static int64_t op_secretbox_x(void) { unsigned char c[48], k[32], n[24], m[32], o[32]; memset(k, 1, 32); memset(n, 2, 24); memset(m, 3, 32); crypto_secretbox_xchacha20poly1305_easy(c, m, 32, n, k); return crypto_secretbox_xchacha20poly1305_open_easy(o, c, 48, n, k) + (int64_t) h64(H0, c, 48); }
static int64_t op_box(void) { unsigned char pk[32], sk[32], seed[32], c[48], n[24], m[32], o[32]; memset(seed, 6, 32); memset(n, 2, 24); memset(m, 3, 32); crypto_box_seed_keypair(pk, sk, seed); crypto_box_easy(c, m, 32, n, pk, sk); return crypto_box_open_easy(o, c, 48, n, pk, sk) + (int64_t) h64(H0, c, 48); }
static int64_t op_box_x(void) { unsigned char pk[32], sk[32], seed[32], c[48], n[24], m[32]; memset(seed, 6, 32); memset(n, 2, 24); memset(m, 3, 32); crypto_box_curve25519xchacha20poly1305_seed_keypair(pk, sk, seed); crypto_box_curve25519xchacha20poly1305_easy(c, m, 32, n, pk, sk); return (int64_t) h64(H0, c, 48); }
static int64_t op_seal(void) { unsigned char pk[32], sk[32], seed[32], c[80], m[32], o[32]; memset(seed, 6, 32); memset(m, 3, 32); crypto_box_seed_keypair(pk, sk, seed); crypto_box_seal(c, m, 32, pk); return crypto_box_seal_open(o, c, 80, pk, sk) + (int64_t) h64(H0, o, 32); }
static int64_t op_kx(void) { unsigned char pk[32], sk[32], seed[32], rx[32], tx[32]; memset(seed, 6, 32); crypto_kx_seed_keypair(pk, sk, seed); crypto_kx_client_session_keys(rx, tx, pk, sk, pk); return (int64_t) h64(h64(H0, rx, 32), tx, 32); }
static int64_t op_sign_open(void) { unsigned char pk[32], sk[64], seed[32], sm[80], o[16]; unsigned long long l; memset(seed, 8, 32); crypto_sign_seed_keypair(pk, sk, seed); crypto_sign(sm, &l, (const unsigned char *) "0123456789abcdef", 16, sk); return crypto_sign_open(o, &l, sm, 80, pk) + (int64_t) h64(H0, sm, 80); }
static int64_t op_sign_multi(void) { unsigned char pk[32], sk[64], seed[32], sig[64]; crypto_sign_state st; memset(seed, 8, 32); crypto_sign_seed_keypair(pk, sk, seed); crypto_sign_init(&st); crypto_sign_update(&st, seed, 32); crypto_sign_final_create(&st, sig, NULL, sk); crypto_sign_init(&st); crypto_sign_update(&st, seed, 32); return crypto_sign_final_verify(&st, sig, pk) + (int64_t) h64(H0, sig, 64); }
static int64_t op_sign_convert(void) { unsigned char pk[32], sk[64], seed[32], c[32], d[32]; memset(seed, 8, 32); crypto_sign_seed_keypair(pk, sk, seed); crypto_sign_ed25519_pk_to_curve25519(c, pk); crypto_sign_ed25519_sk_to_curve25519(d, sk); return (int64_t) h64(h64(H0, c, 32), d, 32); }
static int64_t op_ed_core(void) { unsigned char p[32], q[32], r[32], n[32]; memset(n, 5, 32); crypto_scalarmult_ed25519_base(p, n); n[0] = 9; crypto_scalarmult_ed25519_base_noclamp(q, n); crypto_core_ed25519_add(r, p, q); crypto_core_ed25519_sub(r, r, q); return crypto_core_ed25519_is_valid_point(r) + (int64_t) h64(H0, r, 32); }
static int64_t op_ed_mult(void) { unsigned char p[32], q[32], n[32]; memset(n, 5, 32); crypto_scalarmult_ed25519_base(p, n); crypto_scalarmult_ed25519(q, n, p); crypto_scalarmult_ed25519_noclamp(p, n, q); return (int64_t) h64(H0, p, 32); }
static int64_t op_ristretto(void) { unsigned char p[32], q[32], h[64], n[32]; memset(h, 7, 64); memset(n, 5, 32); crypto_core_ristretto255_from_hash(p, h); crypto_scalarmult_ristretto255(q, n, p); crypto_scalarmult_ristretto255_base(p, n); crypto_core_ristretto255_add(q, q, p); return crypto_core_ristretto255_is_valid_point(q) + (int64_t) h64(H0, q, 32); }
static int64_t op_h2c(void) { unsigned char p[32], q[32]; crypto_core_ed25519_from_string(p, "ctx", (const unsigned char *) "msg", 3, 2); crypto_core_ed25519_from_string_ro(q, "ctx", (const unsigned char *) "msg", 3, 1); crypto_core_ed25519_from_uniform(p, q); return (int64_t) h64(h64(H0, p, 32), q, 32); }
static int64_t op_scalars(void) { unsigned char a[32], b[32], r[32], w[64]; memset(w, 0x77, 64); crypto_core_ed25519_scalar_reduce(a, w); memset(w, 0x31, 64); crypto_core_ed25519_scalar_reduce(b, w); crypto_core_ed25519_scalar_mul(r, a, b); crypto_core_ed25519_scalar_add(r, r, a); crypto_core_ed25519_scalar_invert(r, r); crypto_core_ed25519_scalar_negate(r, r); crypto_core_ed25519_scalar_complement(r, r); return (int64_t) h64(H0, r, 32); }
static int64_t op_hkdf(void) { unsigned char prk[64], o[70]; crypto_kdf_hkdf_sha256_extract(prk, (const unsigned char *) "salt", 4, (const unsigned char *) "ikm", 3); crypto_kdf_hkdf_sha256_expand(o, 70, "info", 4, prk); crypto_kdf_hkdf_sha512_extract(prk, NULL, 0, o, 70); crypto_kdf_hkdf_sha512_expand(o, 70, NULL, 0, prk); return (int64_t) h64(H0, o, 70); }
static int64_t op_kdf(void) { unsigned char k[32], o[40]; memset(k, 4, 32); crypto_kdf_derive_from_key(o, 40, 77, "context_", k); return (int64_t) h64(H0, o, 40); }
static int64_t op_auth(void) { unsigned char k[32], o[64], m[70]; memset(k, 4, 32); memset(m, 6, 70); crypto_auth(o, m, 70, k); if (crypto_auth_verify(o, m, 70, k)) return -1; crypto_auth_hmacsha256(o, m, 70, k); crypto_auth_hmacsha512(o + 32, m, 70, k); return (int64_t) h64(H0, o, 64) + crypto_auth_hmacsha256_verify(o, m, 70, k); }
static int64_t op_hash256(void) { unsigned char o[32]; crypto_hash_sha256_state st; crypto_hash_sha256_init(&st); crypto_hash_sha256_update(&st, (const unsigned char *) "abc", 3); crypto_hash_sha256_update(&st, (const unsigned char *) "def", 3); crypto_hash_sha256_final(&st, o); return (int64_t) h64(H0, o, 32); }
static int64_t op_generichash_multi(void) { unsigned char o[64], k[32], m[300]; crypto_generichash_state st; memset(k, 4, 32); memset(m, 6, 300); crypto_generichash_init(&st, k, 32, 64); crypto_generichash_update(&st, m, 129); crypto_generichash_update(&st, m + 129, 171); crypto_generichash_final(&st, o, 64); return (int64_t) h64(H0, o, 64); }
static int64_t op_onetimeauth_multi(void) { unsigned char o[16], k[32], m[100]; crypto_onetimeauth_state st; memset(k, 9, 32); memset(m, 7, 100); crypto_onetimeauth_init(&st, k); crypto_onetimeauth_update(&st, m, 33); crypto_onetimeauth_update(&st, m + 33, 67); crypto_onetimeauth_final(&st, o); return crypto_onetimeauth_verify(o, m, 100, k) + (int64_t) h64(H0, o, 16); }
static int64_t op_siphashx(void) { unsigned char o[16], k[16]; memset(k, 1, 16); crypto_shorthash_siphashx24(o, (const unsigned char *) "abcdefghij", 10, k); return (int64_t) h64(H0, o, 16); }
static int64_t op_streams(void) { unsigned char o[96], k[32], n[24]; memset(k, 9, 32); memset(n, 1, 24); crypto_stream_xsalsa20(o, 96, n, k); crypto_stream_xchacha20_xor(o, o, 96, n, k); crypto_stream_salsa2012_xor(o, o, 96, n, k); crypto_stream_salsa208_xor(o, o, 96, n, k); crypto_stream_chacha20_ietf_xor_ic(o, o, 96, n, 3, k); return (int64_t) h64(H0, o, 96); }
static int64_t op_cores(void) { unsigned char o[64], k[32], in[16]; memset(k, 9, 32); memset(in, 1, 16); crypto_core_hchacha20(o, in, k, NULL); crypto_core_hsalsa20(o + 32, in, k, NULL); crypto_core_salsa20(o, in, k, NULL); return (int64_t) h64(H0, o, 64); }
static int64_t op_secretstream_pull(void) { crypto_secretstream_xchacha20poly1305_state s, p; unsigned char h[24], k[32], c[40], o[8], tg; unsigned long long l; memset(k, 1, 32); crypto_secretstream_xchacha20poly1305_init_push(&s, h, k); crypto_secretstream_xchacha20poly1305_push(&s, c, NULL, (const unsigned char *) "abc", 3, NULL, 0, 2); crypto_secretstream_xchacha20poly1305_init_pull(&p, h, k); return crypto_secretstream_xchacha20poly1305_pull(&p, o, &l, &tg, c, 20, NULL, 0) * 100 + tg + (int64_t) h64(H0, o, 3); }
static int64_t op_pwstr_verify(void) { return crypto_pwhash_str_verify("$argon2id$v=19$m=8,t=1,p=1$AQIDBAUGBwgJCgsMDQ4PEA$ujGdxyOb7ULOSjaQvFUmGgGSNhe4m3kVvWuqrK1mRWg", "pw", 2) * 10 + crypto_pwhash_str_needs_rehash("$argon2id$v=19$m=8,t=1,p=1$AQIDBAUGBwgJCgsMDQ4PEA$ujGdxyOb7ULOSjaQvFUmGgGSNhe4m3kVvWuqrK1mRWg", 1, 8192); }
static int64_t op_pwstr(void) { char s[128]; if (crypto_pwhash_str(s, "pw", 2, 1, 8192)) return -1; return crypto_pwhash_str_verify(s, "pw", 2); }
static int64_t op_scrypt_str(void) { return crypto_pwhash_scryptsalsa208sha256_str_needs_rehash("$7$C6..../....SodiumChloride$kBGj9fHznVYFQMEn/qDCfrDevf9YDtcDdKvEqHJLV8D", 32768, 16777216); }
static int64_t op_codecs(void) { char t[100]; unsigned char b[40], o[40]; size_t bl; memset(b, 0xa7, 40); sodium_bin2hex(t, 100, b, 40); sodium_hex2bin(o, 40, t, 80, NULL, &bl, NULL); sodium_bin2base64(t, 100, o, 40, sodium_base64_VARIANT_URLSAFE); return sodium_base642bin(b, 40, t, strlen(t), NULL, &bl, NULL, sodium_base64_VARIANT_URLSAFE) + (int64_t) h64(H0, t, strlen(t)) + (int64_t) bl; }
static int64_t op_pad(void) { unsigned char b[64]; size_t pl, ul; memset(b, 5, 64); sodium_pad(&pl, b, 21, 16, 64); sodium_unpad(&ul, b, pl, 16); return (int64_t) (pl * 100 + ul); }
static int64_t op_utils(void) { unsigned char a[24], b[24]; memset(a, 0xff, 24); memset(b, 1, 24); sodium_increment(a, 24); sodium_add(a, b, 24); sodium_sub(a, b, 12); sodium_stackzero(128); return sodium_compare(a, b, 24) * 4 + sodium_memcmp(a, b, 24) * 2 + sodium_is_zero(a, 24) + (int64_t) h64(H0, a, 24); }
static int64_t op_verify(void) { unsigned char a[64], b[64]; memset(a, 3, 64); memset(b, 3, 64); b[63] = 4; return crypto_verify_16(a, b) * 4 + crypto_verify_32(a, b) * 2 + crypto_verify_64(a, b); }
static int64_t op_detrng(void) { unsigned char o[100], s[32]; memset(s, 2, 32); randombytes_buf_deterministic(o, 100, s); return (int64_t) h64(H0, o, 100); }
static int64_t op_argon2i(void) { unsigned char o[16], s[16]; memset(s, 2, 16); if (crypto_pwhash(o, 16, "pw", 2, s, 3, 8192, crypto_pwhash_ALG_ARGON2I13)) return -1; return (int64_t) h64(H0, o, 16); }
static int64_t op_allocarray(void) { unsigned char *p = sodium_allocarray(7, 9); int64_t r; if (!p) return -1; r = p[0] + p[62]; sodium_mlock(p, 63); sodium_munlock(p, 63); sodium_free(p); return r; }
typedef int64_t (*op_fn)(void);
static const struct { const char *name; op_fn fn; } OPS[] = {
    { "runtime_flags", op_flags }, { "randombytes_implementation_name", op_rngname }, { "sodium_malloc/free", op_malloc }, { "sodium_mprotect_*", op_mprotect },
    { "crypto_generichash", op_generichash }, { "crypto_onetimeauth", op_onetimeauth }, { "crypto_stream_chacha20", op_chacha }, { "crypto_stream_salsa20", op_salsa },
    { "crypto_scalarmult_base", op_scalarmult }, { "crypto_aead_aegis128l", op_aegis }, { "crypto_aead_aegis256", op_aegis256 }, { "crypto_pwhash(argon2id)", op_pwhash },
    { "randombytes_buf", op_randombuf }, { "randombytes_uniform", op_uniform }, { "crypto_secretbox_easy", op_secretbox }, { "crypto_aead_chacha20poly1305_ietf", op_aead },
    { "crypto_aead_aes256gcm", op_gcm }, { "crypto_sign", op_sign }, { "crypto_hash_sha512", op_hash }, { "crypto_shorthash", op_shorthash },
    { "crypto_secretstream", op_secretstream }, { "crypto_box_keypair", op_keygen }, { "crypto_pwhash_scrypt_ll", op_scrypt }, { "sodium_set_misuse_handler", op_misuse_handler },
    { "sodium_init(again)", op_init_again }, { "sodium_memzero", op_memzero },
    { "aead_chacha20poly1305_ietf_decrypt", op_aead_dec }, { "aead_xchacha20poly1305_ietf(forged)", op_aead_x }, { "aead_chacha20poly1305(orig)", op_aead_orig }, { "aead_aegis128l_decrypt", op_aegis_dec },
    { "aead_aes256gcm_decrypt", op_gcm_dec }, { "secretbox_open_easy", op_secretbox_open }, { "secretbox_xchacha20poly1305", op_secretbox_x }, { "box_easy/open_easy", op_box }, { "box_xchacha20", op_box_x },
    { "box_seal/seal_open", op_seal }, { "crypto_kx", op_kx }, { "crypto_sign_open", op_sign_open }, { "crypto_sign_multipart", op_sign_multi }, { "ed25519_to_curve25519", op_sign_convert },
    { "core_ed25519 add/sub/valid", op_ed_core }, { "scalarmult_ed25519", op_ed_mult }, { "ristretto255", op_ristretto }, { "hash-to-curve", op_h2c }, { "ed25519 scalars", op_scalars },
    { "hkdf", op_hkdf }, { "kdf_derive", op_kdf }, { "auth hmac x3 + verify", op_auth }, { "sha256 multipart", op_hash256 }, { "generichash multipart", op_generichash_multi },
    { "onetimeauth multipart + verify", op_onetimeauth_multi }, { "siphashx24", op_siphashx }, { "stream variants", op_streams }, { "core h*/salsa", op_cores }, { "secretstream pull", op_secretstream_pull },
    { "pwhash_str_verify/needs_rehash", op_pwstr_verify }, { "pwhash_str", op_pwstr }, { "scrypt needs_rehash", op_scrypt_str }, { "hex/base64", op_codecs }, { "pad/unpad", op_pad },
    { "increment/add/sub/compare", op_utils }, { "crypto_verify_n", op_verify }, { "randombytes_buf_deterministic", op_detrng }, { "pwhash argon2i", op_argon2i }, { "sodium_allocarray/mlock", op_allocarray } };
#define NOPS ((int) (sizeof OPS / sizeof OPS[0]))
#endif
