/* operation table shared by the scheduler harness (c19.c) and the free-running TSan/helgrind complement (c19_free.c) */
#ifndef C19_OPS_H
#define C19_OPS_H
#include <sodium.h>
#include <stdint.h>
#include <string.h>
/* ---------------- thread bodies ---------------- */
static uint64_t h64(uint64_t h, const void *p, size_t n) { const unsigned char *b = p; size_t i; for (i = 0; i < n; i++) { h ^= b[i]; h *= 0x100000001b3ULL; } return h; }
#define H0 0xcbf29ce484222325ULL

static int64_t op_flags(void)
{
    return sodium_runtime_has_sse2() | sodium_runtime_has_sse3() << 1 | sodium_runtime_has_ssse3() << 2 | sodium_runtime_has_sse41() << 3 | sodium_runtime_has_avx() << 4 |
           sodium_runtime_has_avx2() << 5 | sodium_runtime_has_avx512f() << 6 | sodium_runtime_has_pclmul() << 7 | sodium_runtime_has_aesni() << 8 | sodium_runtime_has_rdrand() << 9 |
           crypto_aead_aes256gcm_is_available() << 10;
}
static int64_t op_rngname(void) { return strcmp(randombytes_implementation_name(), "sysrandom") == 0; }
static int64_t op_malloc(void) { unsigned char *p = sodium_malloc(40); uint64_t h; if (!p) return -1; h = h64(H0, p - 16, 16); h = h64(h, p, 40); p[0] = 1; p[39] = 2; sodium_free(p); return (int64_t) h; }
static int64_t op_mprotect(void) { unsigned char *p = sodium_malloc(100); int r; if (!p) return -1; r = sodium_mprotect_readonly(p); r |= sodium_mprotect_noaccess(p) << 1; r |= sodium_mprotect_readwrite(p) << 2; p[5] = 1; sodium_free(p); return r; }
static int64_t op_generichash(void) { unsigned char o[32], m[200]; memset(m, 7, sizeof m); crypto_generichash(o, 32, m, sizeof m, NULL, 0); return (int64_t) h64(H0, o, 32); }
static int64_t op_onetimeauth(void) { unsigned char o[16], m[100], k[32]; memset(m, 7, sizeof m); memset(k, 9, 32); crypto_onetimeauth(o, m, sizeof m, k); return (int64_t) h64(H0, o, 16); }
static int64_t op_chacha(void) { unsigned char o[128], k[32], n[8]; memset(k, 9, 32); memset(n, 1, 8); crypto_stream_chacha20(o, sizeof o, n, k); return (int64_t) h64(H0, o, sizeof o); }
static int64_t op_salsa(void) { unsigned char o[128], k[32], n[8]; memset(k, 9, 32); memset(n, 1, 8); crypto_stream_salsa20(o, sizeof o, n, k); return (int64_t) h64(H0, o, sizeof o); }
static int64_t op_scalarmult(void) { unsigned char q[32], n[32]; memset(n, 5, 32); crypto_scalarmult_base(q, n); return (int64_t) h64(H0, q, 32); }
static int64_t op_aegis(void) { unsigned char c[64], k[16], n[16], m[20]; unsigned long long cl; memset(k, 3, 16); memset(n, 4, 16); memset(m, 5, 20); crypto_aead_aegis128l_encrypt(c, &cl, m, 20, NULL, 0, NULL, n, k); return (int64_t) h64(H0, c, (size_t) cl); }
static int64_t op_aegis256(void) { unsigned char c[64], k[32], n[32], m[20]; unsigned long long cl; memset(k, 3, 32); memset(n, 4, 32); memset(m, 5, 20); crypto_aead_aegis256_encrypt(c, &cl, m, 20, NULL, 0, NULL, n, k); return (int64_t) h64(H0, c, (size_t) cl); }
static int64_t op_pwhash(void) { unsigned char o[16], s[16]; memset(s, 2, 16); if (crypto_pwhash(o, 16, "pw", 2, s, 1, 8192, crypto_pwhash_ALG_ARGON2ID13)) return -1; return (int64_t) h64(H0, o, 16); }
static int64_t op_randombuf(void) { unsigned char b[24]; randombytes_buf(b, sizeof b); return (int64_t) h64(H0, b, sizeof b); }
static int64_t op_uniform(void) { return (int64_t) randombytes_uniform(1000); }
static int64_t op_secretbox(void) { unsigned char c[48], k[32], n[24], m[32]; memset(k, 1, 32); memset(n, 2, 24); memset(m, 3, 32); crypto_secretbox_easy(c, m, 32, n, k); return (int64_t) h64(H0, c, 48); }
static int64_t op_aead(void) { unsigned char c[48], k[32], n[12], m[32]; unsigned long long cl; memset(k, 1, 32); memset(n, 2, 12); memset(m, 3, 32); crypto_aead_chacha20poly1305_ietf_encrypt(c, &cl, m, 32, NULL, 0, NULL, n, k); return (int64_t) h64(H0, c, 48); }
static int64_t op_gcm(void) { unsigned char c[48], k[32], n[12], m[32]; unsigned long long cl; if (!crypto_aead_aes256gcm_is_available()) return 0; memset(k, 1, 32); memset(n, 2, 12); memset(m, 3, 32); crypto_aead_aes256gcm_encrypt(c, &cl, m, 32, NULL, 0, NULL, n, k); return (int64_t) h64(H0, c, 48); }
static int64_t op_sign(void) { unsigned char pk[32], sk[64], seed[32], sig[64]; memset(seed, 8, 32); crypto_sign_seed_keypair(pk, sk, seed); crypto_sign_detached(sig, NULL, (const unsigned char *) "abc", 3, sk); return (int64_t) h64(H0, sig, 64) ^ crypto_sign_verify_detached(sig, (const unsigned char *) "abc", 3, pk); }
static int64_t op_hash(void) { unsigned char o[64]; crypto_hash_sha512(o, (const unsigned char *) "abc", 3); return (int64_t) h64(H0, o, 64); }
static int64_t op_shorthash(void) { unsigned char o[8], k[16]; memset(k, 1, 16); crypto_shorthash(o, (const unsigned char *) "abc", 3, k); return (int64_t) h64(H0, o, 8); }
static int64_t op_secretstream(void) { crypto_secretstream_xchacha20poly1305_state st; unsigned char h[24], k[32], c[40]; memset(k, 1, 32); crypto_secretstream_xchacha20poly1305_init_push(&st, h, k); crypto_secretstream_xchacha20poly1305_push(&st, c, NULL, (const unsigned char *) "abc", 3, NULL, 0, 0); return (int64_t) h64(h64(H0, h, 24), c, 20); }
static int64_t op_keygen(void) { unsigned char pk[32], sk[32]; crypto_box_keypair(pk, sk); return (int64_t) h64(h64(H0, pk, 32), sk, 32); }
static int64_t op_scrypt(void) { unsigned char o[16], s[32]; memset(s, 2, 32); if (crypto_pwhash_scryptsalsa208sha256_ll((const uint8_t *) "pw", 2, s, 32, 16, 1, 1, o, 16)) return -1; return (int64_t) h64(H0, o, 16); }
static int64_t op_misuse_handler(void) { return sodium_set_misuse_handler(NULL); }
static int64_t op_init_again(void) { return sodium_init(); }
static int64_t op_memzero(void) { unsigned char b[64]; memset(b, 1, 64); sodium_memzero(b, 64); return sodium_is_zero(b, 64); }

typedef int64_t (*op_fn)(void);
static const struct { const char *name; op_fn fn; } OPS[] = {
    { "runtime_flags", op_flags }, { "randombytes_implementation_name", op_rngname }, { "sodium_malloc/free", op_malloc }, { "sodium_mprotect_*", op_mprotect },
    { "crypto_generichash", op_generichash }, { "crypto_onetimeauth", op_onetimeauth }, { "crypto_stream_chacha20", op_chacha }, { "crypto_stream_salsa20", op_salsa },
    { "crypto_scalarmult_base", op_scalarmult }, { "crypto_aead_aegis128l", op_aegis }, { "crypto_aead_aegis256", op_aegis256 }, { "crypto_pwhash(argon2id)", op_pwhash },
    { "randombytes_buf", op_randombuf }, { "randombytes_uniform", op_uniform }, { "crypto_secretbox_easy", op_secretbox }, { "crypto_aead_chacha20poly1305_ietf", op_aead },
    { "crypto_aead_aes256gcm", op_gcm }, { "crypto_sign", op_sign }, { "crypto_hash_sha512", op_hash }, { "crypto_shorthash", op_shorthash },
    { "crypto_secretstream", op_secretstream }, { "crypto_box_keypair", op_keygen }, { "crypto_pwhash_scrypt_ll", op_scrypt }, { "sodium_set_misuse_handler", op_misuse_handler },
    { "sodium_init(again)", op_init_again }, { "sodium_memzero", op_memzero } };
#define NOPS ((int) (sizeof OPS / sizeof OPS[0]))
#endif
