/* C03: stream ciphers give the specified keystream at every length and counter (one process = one backend cfg). */
#include "common.h"
#include <sodium.h>
#include "ref_stream.h"

static unsigned long long n_eval, n_nontriv, n_probe;
static int thorough;
static size_t MAXLEN;

typedef int (*f_stream)(unsigned char *, unsigned long long, const unsigned char *, const unsigned char *);
typedef int (*f_xor)(unsigned char *, const unsigned char *, unsigned long long, const unsigned char *, const unsigned char *);
typedef int (*f_xic64)(unsigned char *, const unsigned char *, unsigned long long, const unsigned char *, uint64_t, const unsigned char *);
typedef int (*f_xic32)(unsigned char *, const unsigned char *, unsigned long long, const unsigned char *, uint32_t, const unsigned char *);

static void r_chacha(uint8_t *o, const uint8_t *i, size_t l, const uint8_t *k, const uint8_t *n, uint64_t c) { ref_chacha20_xor(o, i, l, k, n, c); }
static void r_ietf(uint8_t *o, const uint8_t *i, size_t l, const uint8_t *k, const uint8_t *n, uint64_t c) { ref_chacha20_ietf_xor(o, i, l, k, n, (uint32_t) c); }
static void r_xchacha(uint8_t *o, const uint8_t *i, size_t l, const uint8_t *k, const uint8_t *n, uint64_t c) { ref_xchacha20_xor(o, i, l, k, n, c); }
static void r_salsa20(uint8_t *o, const uint8_t *i, size_t l, const uint8_t *k, const uint8_t *n, uint64_t c) { ref_salsa20_xor(o, i, l, k, n, c, 20); }
static void r_salsa12(uint8_t *o, const uint8_t *i, size_t l, const uint8_t *k, const uint8_t *n, uint64_t c) { ref_salsa20_xor(o, i, l, k, n, c, 12); }
static void r_salsa8(uint8_t *o, const uint8_t *i, size_t l, const uint8_t *k, const uint8_t *n, uint64_t c) { ref_salsa20_xor(o, i, l, k, n, c, 8); }
static void r_xsalsa(uint8_t *o, const uint8_t *i, size_t l, const uint8_t *k, const uint8_t *n, uint64_t c) { ref_xsalsa20_xor(o, i, l, k, n, c); }

typedef struct {
    const char *name; int noncelen; int ctrbits;   /* 64, 32 or 0 (no xor_ic API) */
    f_stream stream; f_xor xor; f_xic64 xic64; f_xic32 xic32;
    void (*ref)(uint8_t *, const uint8_t *, size_t, const uint8_t *, const uint8_t *, uint64_t);
} cipher;

static const cipher CIPHERS[] = {
    { "chacha20", 8, 64, crypto_stream_chacha20, crypto_stream_chacha20_xor, crypto_stream_chacha20_xor_ic, NULL, r_chacha },
    { "chacha20_ietf", 12, 32, crypto_stream_chacha20_ietf, crypto_stream_chacha20_ietf_xor, NULL, crypto_stream_chacha20_ietf_xor_ic, r_ietf },
    { "xchacha20", 24, 64, crypto_stream_xchacha20, crypto_stream_xchacha20_xor, crypto_stream_xchacha20_xor_ic, NULL, r_xchacha },
    { "salsa20", 8, 64, crypto_stream_salsa20, crypto_stream_salsa20_xor, crypto_stream_salsa20_xor_ic, NULL, r_salsa20 },
    { "salsa2012", 8, 0, crypto_stream_salsa2012, crypto_stream_salsa2012_xor, NULL, NULL, r_salsa12 },
    { "salsa208", 8, 0, crypto_stream_salsa208, crypto_stream_salsa208_xor, NULL, NULL, r_salsa8 },
    { "xsalsa20", 24, 64, crypto_stream_xsalsa20, crypto_stream_xsalsa20_xor, crypto_stream_xsalsa20_xor_ic, NULL, r_xsalsa },
    { "crypto_stream", 24, 0, crypto_stream, crypto_stream_xor, NULL, NULL, r_xsalsa },
};
#define NCIPH (sizeof CIPHERS / sizeof CIPHERS[0])

static uint64_t CTR64[96]; static int nctr64;
static uint64_t CTR32[40]; static int nctr32;
static void build_counters(void)
{
    int i;
    CTR64[nctr64++] = 0; CTR64[nctr64++] = 1; CTR64[nctr64++] = 2; CTR64[nctr64++] = 0x7fffffffULL;
    CTR64[nctr64++] = 0x123456789abcdefULL | 1; CTR64[nctr64++] = 0xfedcba9876543211ULL;
    for (i = -16; i <= 16; i++) CTR64[nctr64++] = (1ULL << 32) + (uint64_t) (int64_t) i;
    for (i = 16; i >= 1; i--) CTR64[nctr64++] = 0ULL - (uint64_t) i;             /* 2^64-16 .. 2^64-1 */
    CTR64[nctr64++] = 0xffffffff00000000ULL - 3; CTR64[nctr64++] = 0x00000001ffffffffULL;
    CTR32[nctr32++] = 0; CTR32[nctr32++] = 1; CTR32[nctr32++] = 2; CTR32[nctr32++] = 0x7fffffffULL; CTR32[nctr32++] = 0x80000000ULL;
    CTR32[nctr32++] = 0x12345679ULL; CTR32[nctr32++] = 0xfedcba99ULL;
    for (i = 16; i >= 1; i--) CTR32[nctr32++] = (1ULL << 32) - (uint64_t) i;
}

static unsigned char *refks, *msg, *want, *outb;

/* blocks available before the counter would pass its width (0 = unlimited for this length range) */
static uint64_t blocks_avail(int bits, uint64_t ic)
{
    if (bits == 32) return (1ULL << 32) - ic;
    return ic == 0 ? UINT64_MAX : 0ULL - ic;
}

static void one_stream(const cipher *C, int kp, int api /*0 stream,1 xor,2 xor_ic*/, uint64_t ic, int al)
{
    unsigned char key[32], nonce[24]; size_t len, maxl = MAXLEN; char keystr[160];
    uint64_t avail = blocks_avail(C->ctrbits ? C->ctrbits : 64, ic);
    vf_pat(key, 32, kp, 31); vf_pat(nonce, (size_t) C->noncelen, kp, 32 + ic);
    if (avail != UINT64_MAX && avail * 64 < maxl) maxl = (size_t) (avail * 64);   /* stay inside the counter range here */
    C->ref(refks, NULL, maxl, key, nonce, ic);
    vf_pat(msg, maxl + 16, (kp + 1) % PAT_N, 33);
    for (len = 0; len <= maxl; len++) {
        int r; size_t i;
        unsigned char *o = outb + al, *m = msg + ((al * 3) & 15);
        memset(o, 0xA5, len + 32);
        if (api == 0) { r = C->stream(o + 16, len, nonce, key); memcpy(want, refks, len); }
        else {
            for (i = 0; i < len; i++) want[i] = m[i] ^ refks[i];
            if (api == 1) r = C->xor(o + 16, m, len, nonce, key);
            else if (C->ctrbits == 32) r = C->xic32(o + 16, m, len, nonce, (uint32_t) ic, key);
            else r = C->xic64(o + 16, m, len, nonce, ic, key);
        }
        n_eval++; if (len) n_nontriv++;
        if (len == 65 + (size_t) (kp * 64)) VF_SAMPLE_CASE(4, "%s %s len=%zu initial_counter=%" PRIu64 " key/nonce pattern %s, buffer offset %d: key=%s nonce=%s output[0..16)=%s (equal to the reference)", C->name, api == 0 ? "stream" : api == 1 ? "xor" : "xor_ic", len, ic, vf_patname[kp], al, vf_hex(key, 32), vf_hex(nonce, (size_t) C->noncelen), vf_hex(o + 16, 16));
        if (r != 0 || memcmp(o + 16, want, len) != 0 || o[15] != 0xA5 || o[16 + len] != 0xA5) {
            size_t d = 0; while (d < len && o[16 + d] == want[d]) d++;
            snprintf(keystr, sizeof keystr, "%s/%s/len=%zu/ic=%" PRIu64 "/pat=%s/al=%d", C->name, api == 0 ? "stream" : api == 1 ? "xor" : "xor_ic", len, ic, vf_patname[kp], al);
            vf_fail(keystr, "ret=%d first differing byte %zu (of %zu) got %s want %s%s", r, d, len,
                    vf_hex(o + 16 + (d < len ? d : 0), len - d > 16 ? 16 : len - d), vf_hex(want + (d < len ? d : 0), len - d > 16 ? 16 : len - d),
                    (o[15] != 0xA5 || o[16 + len] != 0xA5) ? " (canary overwritten)" : "");
            if (vf_nfail >= VF_MAXFAIL) return;
        }
    }
}

/* work item = (cipher, key pattern, counter index) */
typedef struct { int c, kp, api; uint64_t ic; } item;
static item *ITEMS; static long nitems;
static void add_item(int c, int kp, int api, uint64_t ic) { ITEMS[nitems].c = c; ITEMS[nitems].kp = kp; ITEMS[nitems].api = api; ITEMS[nitems].ic = ic; nitems++; }
static void do_item(long i)
{
    static const int ALS[5] = { 0, 1, 7, 8, 15 }; int a;
    if (!thorough) { one_stream(&CIPHERS[ITEMS[i].c], ITEMS[i].kp, ITEMS[i].api, ITEMS[i].ic, (int) ((i * 5) & 15)); return; }
    for (a = 0; a < 5; a++) one_stream(&CIPHERS[ITEMS[i].c], ITEMS[i].kp, ITEMS[i].api, ITEMS[i].ic, ALS[a]);
}

/* ---- isolated large lengths (block-count boundaries far above the dense range) ---- */
static const size_t BIGL[] = { 4095, 4096, 4097, 8191, 8192, 8193, 16383, 16384, 16385, 65535, 65536, 65537, 131071, 131072, 131073, 1048575, 1048576, 1048577, 4194303, 4194305,
                               ((size_t) 1 << 30) + 65 };   /* 4 MiB + 1 / 1 GiB + 65: the block counter carries into its third / fourth byte (the only way to reach that for ciphers without an xor_ic form) */
#define NBIGL (sizeof BIGL / sizeof BIGL[0])
static void do_big(long it)
{
    const cipher *C = &CIPHERS[it / (long) NBIGL]; size_t len = BIGL[it % (long) NBIGL], i; unsigned char key[32], nonce[24]; char keystr[160];
    unsigned char *ks, *m, *o; int api, r; uint64_t ic;
    if (len > 1100000 && len != 4194305 && !thorough) return;
    if (len > ((size_t) 1 << 30) && (C->ctrbits != 0 || !thorough)) return;
    ks = malloc(len + 64); m = malloc(len + 64); o = malloc(len + 96);
    if (!ks || !m || !o) { printf("INFO large length %zu skipped: out of memory\n", len); free(ks); free(m); free(o); return; }
    vf_pat(key, 32, PAT_R1, 71); vf_pat(nonce, 24, PAT_C, 72); vf_pat(m, len, PAT_R2, 73);
    for (api = 0; api < 3; api++) {
        if (api == 2 && C->ctrbits == 0) continue;
        ic = api == 2 ? (C->ctrbits == 32 ? 0xfffe0000ULL : 0xffffffffffff0000ULL + 0 * 1) : 0;      /* counters whose low 16 bits carry inside the request */
        if (api == 2 && C->ctrbits == 32 && (len + 63) / 64 > 0x20000) continue;
        if (api == 2 && C->ctrbits == 64) ic = 0xfffffff0ULL;                                          /* crosses 2^32 */
        C->ref(ks, NULL, len, key, nonce, ic);
        memset(o, 0xA5, len + 32);
        if (api == 0) r = C->stream(o + 16, len, nonce, key);
        else { for (i = 0; i < len; i++) ks[i] ^= m[i]; r = api == 1 ? C->xor(o + 16, m, len, nonce, key) : C->ctrbits == 32 ? C->xic32(o + 16, m, len, nonce, (uint32_t) ic, key) : C->xic64(o + 16, m, len, nonce, ic, key); }
        n_eval++; n_nontriv++;
        if (r != 0 || memcmp(o + 16, ks, len) || o[15] != 0xA5 || o[16 + len] != 0xA5) { size_t d = 0; while (d < len && o[16 + d] == ks[d]) d++;
            snprintf(keystr, sizeof keystr, "%s/%s/len=%zu/ic=%" PRIu64 "/large", C->name, api == 0 ? "stream" : api == 1 ? "xor" : "xor_ic", len, ic); vf_fail(keystr, "ret=%d first differing byte %zu", r, d); }
    }
    free(ks); free(m); free(o);
}

/* ---- 64-bit counters that start FAR below a multiple of 2^32 and run across it within one call (distance x length jointly): a fast path
 * chosen once per call from the starting counter must still handle the carry it meets thousands of blocks later ---- */
static void do_far_carry(long it)
{
    static const uint64_t DIST[6] = { 4097, 5003, 8200, 12345, 40000, 70001 }; static const uint64_t BASEC[3] = { 1ULL << 32, 1ULL << 33, 0xffffffff00000000ULL + 0 };
    const cipher *C = &CIPHERS[it / 18]; uint64_t D = DIST[(it % 18) / 3], base = BASEC[it % 3], ic; size_t len, i; unsigned char key[32], nonce[24], *ks, *m, *o; char keystr[160]; int r;
    if (C->ctrbits != 64) return;
    if (D > 13000 && !thorough && (it % 3)) return;
    ic = base - D; if (base == BASEC[2]) ic = 0xffffffffffffffffULL - D + 1;       /* the third base is the wrap of the full 64-bit counter: only up to it */
    len = (size_t) ((D + (base == BASEC[2] ? 0 : 37)) * 64 - (base == BASEC[2] ? 0 : 17));
    ks = malloc(len + 64); m = malloc(len + 64); o = malloc(len + 96);
    vf_pat(key, 32, PAT_R1, 81); vf_pat(nonce, 24, PAT_C, 82); vf_pat(m, len, PAT_R2, 83);
    C->ref(ks, NULL, len, key, nonce, ic); for (i = 0; i < len; i++) ks[i] ^= m[i];
    memset(o, 0xA5, len + 32); r = C->xic64(o + 16, m, len, nonce, ic, key); n_eval++; n_nontriv++;
    if (r != 0 || memcmp(o + 16, ks, len) || o[15] != 0xA5 || o[16 + len] != 0xA5) { size_t d = 0; while (d < len && o[16 + d] == ks[d]) d++;
        snprintf(keystr, sizeof keystr, "%s/xor_ic/len=%zu/ic=%" PRIu64 "/far-carry", C->name, len, ic); vf_fail(keystr, "ret=%d first differing byte %zu (block %zu of the request)", r, d, d / 64); }
    free(ks); free(m); free(o);
}

/* ---- core functions ---- */
static void cores(void)
{
    int kp, ip, cc; unsigned char key[32], in[16], cst[16], o1[64], o2[64]; char keystr[96];
    for (kp = 0; kp < PAT_N; kp++) for (ip = 0; ip < PAT_N; ip++) for (cc = 0; cc < 3; cc++) {
        const unsigned char *c = cc == 0 ? NULL : cst;
        vf_pat(key, 32, kp, 41); vf_pat(in, 16, ip, 42); vf_pat(cst, 16, cc == 1 ? PAT_R2 : PAT_F, 43);
#define CORE(NAME, CALL, REFCALL, N) do { memset(o1, 0, 64); memset(o2, 0, 64); CALL; REFCALL; n_eval++; n_nontriv++; \
        if (memcmp(o1, o2, N)) { snprintf(keystr, sizeof keystr, NAME "/key=%s/in=%s/const=%d", vf_patname[kp], vf_patname[ip], cc); \
            vf_fail(keystr, "got %s want %s", vf_hex(o1, N), vf_hex(o2, N)); } } while (0)
        CORE("core_hchacha20", crypto_core_hchacha20(o1, in, key, c), ref_hchacha20(o2, in, key, c), 32);
        CORE("core_hsalsa20", crypto_core_hsalsa20(o1, in, key, c), ref_hsalsa20(o2, in, key, c), 32);
        CORE("core_salsa20", crypto_core_salsa20(o1, in, key, c), ref_salsa20_core(o2, in, key, c, 20), 64);
        CORE("core_salsa2012", crypto_core_salsa2012(o1, in, key, c), ref_salsa20_core(o2, in, key, c, 12), 64);
        CORE("core_salsa208", crypto_core_salsa208(o1, in, key, c), ref_salsa20_core(o2, in, key, c, 8), 64);
    }
}

/* ---- IETF counter limit: refused through the misuse handler exactly beyond the boundary ---- */
static void misuse_exit(void) { _exit(77); }
enum { OUT_REFUSED = 1, OUT_PROCESSED = 2, OUT_RETURNED_OK = 3, OUT_RETURNED_ERR = 4, OUT_OTHER = 5 };
/* which: 0 = ietf_xor_ic, 1 = ietf_xor (ic=0), 2 = ietf stream (ic=0) ; buffers = one page followed by PROT_NONE */
static int probe(int which, unsigned long long len, uint32_t ic, unsigned char *res /* first bytes if returned ok */)
{
    int pfd[2]; pid_t pid; int st; unsigned char key[32], nonce[12];
    vf_pat(key, 32, PAT_C, 51); vf_pat(nonce, 12, PAT_C, 52);
    if (pipe(pfd)) exit(2);
    fflush(stdout);
    pid = fork();
    if (pid == 0) {
        vf_guard g; size_t pg = (size_t) sysconf(_SC_PAGESIZE); size_t have = len < pg ? (size_t) len : pg;
        unsigned char *buf = vf_guard_alloc(&g, have, 0); int r;
        close(pfd[0]);
        memset(buf, 0, have);
        sodium_set_misuse_handler(misuse_exit);
        if (which == 0) r = crypto_stream_chacha20_ietf_xor_ic(buf, buf, len, nonce, ic, key);
        else if (which == 1) r = crypto_stream_chacha20_ietf_xor(buf, buf, len, nonce, key);
        else r = crypto_stream_chacha20_ietf(buf, len, nonce, key);
        if (r == 0) { if (write(pfd[1], buf, have > 256 ? 256 : have) < 0) _exit(3); _exit(0); }
        _exit(78);
    }
    close(pfd[1]);
    { ssize_t k = read(pfd[0], res, 256); (void) k; }
    close(pfd[0]);
    waitpid(pid, &st, 0);
    n_probe++;
    if (WIFSIGNALED(st)) return (WTERMSIG(st) == SIGSEGV || WTERMSIG(st) == SIGBUS) ? OUT_PROCESSED : OUT_OTHER;
    if (WEXITSTATUS(st) == 77) return OUT_REFUSED;
    if (WEXITSTATUS(st) == 0) return OUT_RETURNED_OK;
    if (WEXITSTATUS(st) == 78) return OUT_RETURNED_ERR;
    return OUT_OTHER;
}
static const char *outname(int o) { return o == OUT_REFUSED ? "refused(misuse)" : o == OUT_PROCESSED ? "processed(fault on guard page)" : o == OUT_RETURNED_OK ? "returned 0" : o == OUT_RETURNED_ERR ? "returned error" : "other"; }

static void limit_probes(void)
{
    static const uint32_t ICS[] = { 0, 1, 2, 0x80000000u, 0xfffffff0u, 0xfffffffeu, 0xffffffffu };
    unsigned i, which; int d; unsigned char res[256], ks[320]; char keystr[128];
    unsigned char key[32], nonce[12];
    vf_pat(key, 32, PAT_C, 51); vf_pat(nonce, 12, PAT_C, 52);
    for (which = 0; which < 3; which++) for (i = 0; i < sizeof ICS / sizeof ICS[0]; i++) {
        uint32_t ic = ICS[i]; unsigned long long avail = (1ULL << 32) - ic, lens[12]; int nl = 0, j;
        if (which != 0 && ic != 0) continue;
        for (d = -1; d <= 1; d++) lens[nl++] = avail * 64 + (unsigned long long) (long long) d;     /* around the exact limit */
        lens[nl++] = avail * 64 - 64; lens[nl++] = avail * 64 + 64; lens[nl++] = avail * 64 + 65;
        lens[nl++] = 1ULL << 39; lens[nl++] = (1ULL << 38) + (1ULL << 37); lens[nl++] = 1ULL << 63; lens[nl++] = ~0ULL; lens[nl++] = ~0ULL - 63; lens[nl++] = (1ULL << 38) + 1;
        for (j = 0; j < nl; j++) {
            unsigned long long len = lens[j], blocks = len / 64 + (len % 64 != 0);
            int must_refuse = blocks > avail, o;
            size_t pg = (size_t) sysconf(_SC_PAGESIZE);
            o = probe((int) which, len, ic, res);
            snprintf(keystr, sizeof keystr, "chacha20_ietf-limit/api=%s/ic=%u/len=%llu", which == 0 ? "xor_ic" : which == 1 ? "xor" : "stream", ic, len);
            if (must_refuse && o != OUT_REFUSED) vf_fail(keystr, "request runs past the 32-bit counter but was %s instead of refused", outname(o));
            if (!must_refuse) {
                if (len <= pg) {
                    if (o != OUT_RETURNED_OK) vf_fail(keystr, "in-range request was %s", outname(o));
                    else { ref_chacha20_ietf_xor(ks, NULL, len > 256 ? 256 : (size_t) len, key, nonce, ic);
                           if (memcmp(ks, res, len > 256 ? 256 : (size_t) len)) vf_fail(keystr, "in-range request near the counter limit gave a wrong keystream"); }
                } else if (o != OUT_PROCESSED) vf_fail(keystr, "in-range request (too large for the probe buffer) was %s, expected processing to start", outname(o));
            }
        }
    }
    /* small requests just around the end of the counter range: blocks available 1..16 */
    for (i = 1; i <= 16; i++) {
        uint32_t ic = (uint32_t) (0ULL - i); int j;
        for (j = -65; j <= 65; j++) {
            unsigned long long len = (unsigned long long) ((long long) i * 64 + j), blocks = len / 64 + (len % 64 != 0);
            int o; if (!(j >= -2 && j <= 2) && j != -65 && j != 65 && j != 64 && j != -64 && j != 63) continue;
            o = probe(0, len, ic, res);
            snprintf(keystr, sizeof keystr, "chacha20_ietf-limit/api=xor_ic/ic=%u/len=%llu", ic, len);
            if (blocks > i) { if (o != OUT_REFUSED) vf_fail(keystr, "request runs past the 32-bit counter but was %s", outname(o)); }
            else if (o != OUT_RETURNED_OK) vf_fail(keystr, "in-range request was %s", outname(o));
            else { ref_chacha20_ietf_xor(ks, NULL, len > 256 ? 256 : (size_t) len, key, nonce, ic);
                   if (memcmp(ks, res, len > 256 ? 256 : (size_t) len)) vf_fail(keystr, "wrong keystream at the end of the counter range"); }
        }
    }
}

static void fin(void) { vf_stat("evaluations", n_eval); vf_stat("nontrivial", n_nontriv); vf_stat("limit_probes", n_probe); n_eval = n_nontriv = n_probe = 0; }

int main(void)
{
    unsigned c; int kp, i;
    vf_init_seed();
    thorough = vf_tier_thorough();
    MAXLEN = thorough ? 4200 : 2304;
    if (sodium_init() < 0) return 2;
    printf("INFO features avx512f=%d avx2=%d avx=%d sse41=%d ssse3=%d sse3=%d sse2=%d\n", sodium_runtime_has_avx512f(), sodium_runtime_has_avx2(),
           sodium_runtime_has_avx(), sodium_runtime_has_sse41(), sodium_runtime_has_ssse3(), sodium_runtime_has_sse3(), sodium_runtime_has_sse2());
    build_counters();
    refks = malloc(MAXLEN + 96); msg = malloc(MAXLEN + 96); want = malloc(MAXLEN + 96); outb = malloc(MAXLEN + 96);
    ITEMS = calloc(20000, sizeof(item));
    for (c = 0; c < NCIPH; c++) for (kp = 0; kp < PAT_N; kp++) {
        add_item((int) c, kp, 0, 0); add_item((int) c, kp, 1, 0);
        if (CIPHERS[c].ctrbits == 64) for (i = 0; i < nctr64; i++) { add_item((int) c, kp, 2, CTR64[i]); }
        if (CIPHERS[c].ctrbits == 32) for (i = 0; i < nctr32; i++) add_item((int) c, kp, 2, CTR32[i]);
    }
    vf_parallel(16, 0, nitems, do_item, fin);
    vf_parallel(16, 0, (long) (NCIPH * NBIGL), do_big, fin);
    vf_parallel(16, 0, (long) (NCIPH * 18), do_far_carry, fin);
    cores();
    limit_probes();
    fin();
    vf_sample("chacha20 xor_ic every len 0..%zu at ic=4294967295 (carry from the low into the high counter word) key/nonce pattern C", MAXLEN);
    vf_sample("salsa20 xor_ic len 0..1024 at ic=2^64-16 (only lengths that stay below 2^64 blocks are judged)");
    vf_sample("chacha20_ietf xor_ic ic=4294967295 len=65 -> must reach the misuse handler; len=64 -> last block of the counter range");
    vf_sample("chacha20_ietf xor_ic ic=0 len=2^38+1 on a one-page buffer followed by PROT_NONE -> must be refused, not processed");
    return 0;
}
