/* Shared harness plumbing: content alphabet, stats/fail reporting, fork-parallel shape loops.
 *
 * Output protocol (parsed by vf/common.py):
 *   STAT <name> <integer>      summed over all workers/processes
 *   SAMPLE <free text>         literal sample cases for the evidence file
 *   FAIL <key> | <detail>      one violation; <key> identifies the specific failing case
 *   INFO <text>
 */
#ifndef VF_COMMON_H
#define VF_COMMON_H
#include <errno.h>
#include <inttypes.h>
#include <signal.h>
#include <stdarg.h>
#include <stdint.h>
#include <stdio.h>
#include <stdlib.h>
#include <string.h>
#include <sys/mman.h>
#include <sys/types.h>
#include <sys/wait.h>
#include <unistd.h>

#define VF_MAXFAIL 20
static int vf_nfail = 0;
static int vf_worker_id = -1;

static void vf_fail(const char *key, const char *fmt, ...)
{
    va_list ap;
    if (vf_nfail++ >= VF_MAXFAIL) return;
    printf("FAIL %s | ", key);
    va_start(ap, fmt);
    vprintf(fmt, ap);
    va_end(ap);
    printf("\n");
    fflush(stdout);
}

static void vf_stat(const char *name, unsigned long long v)
{
    printf("STAT %s %llu\n", name, v);
}

static void vf_sample(const char *fmt, ...)
{
    va_list ap;
    printf("SAMPLE ");
    va_start(ap, fmt);
    vprintf(fmt, ap);
    va_end(ap);
    printf("\n");
}

static char vf_ctx[256] = "(no case context)";      /* harnesses may describe the running case here: printed if a worker crashes */
static void (*vf_crash_cb)(void);        /* optional: fills vf_ctx from cheap per-case globals at the moment of the crash */
static void vf_crash_handler(int sig)
{
    char b[400]; if (vf_crash_cb) vf_crash_cb(); int n = snprintf(b, sizeof b, "FAIL crash/%s | process died with signal %d while running this case\n", vf_ctx, sig);
    if (n > 0) { ssize_t w = write(1, b, (size_t) n); (void) w; }
    _exit(1);
}
static int vf_nsample = 0;
/* literal sample of a case this run actually executed: the first few calls in worker 0 (or the parent) are written out */
#define VF_SAMPLE_CASE(max, ...) do { if (vf_worker_id <= 0 && vf_nsample < (max)) { vf_nsample++; vf_sample(__VA_ARGS__); } } while (0)

static const char *vf_hex(const void *p, size_t n)
{
    static char bufs[8][2 * 300 + 8];
    static int  k = 0;
    char       *b = bufs[k++ & 7];
    size_t      i, m = n > 300 ? 300 : n;
    for (i = 0; i < m; i++) sprintf(b + 2 * i, "%02x", ((const unsigned char *) p)[i]);
    b[2 * m] = 0;
    if (m < n) strcat(b, "...");
    return b;
}

/* ---- content alphabet: Z F C H R1 R2 ---- */
enum { PAT_Z = 0, PAT_F, PAT_C, PAT_H, PAT_R1, PAT_R2, PAT_N };
static const char *vf_patname[PAT_N] = { "Z", "F", "C", "H", "R1", "R2" };
static uint64_t vf_seed = 1;

static uint64_t vf_xs(uint64_t *s)
{
    uint64_t x = *s;
    x ^= x << 13; x ^= x >> 7; x ^= x << 17;
    return *s = x;
}

/* fill buf with pattern `id`; `salt` distinguishes different fields of one case so that key != nonce */
static void vf_pat(unsigned char *buf, size_t len, int id, uint64_t salt)
{
    size_t i;
    switch (id) {
    case PAT_Z: memset(buf, 0, len); break;
    case PAT_F: memset(buf, 0xff, len); break;
    case PAT_C: for (i = 0; i < len; i++) buf[i] = (unsigned char) ((i + salt) % 251); break;
    case PAT_H: for (i = 0; i < len; i++) buf[i] = (unsigned char) (0x80 | ((i + salt) & 0x7f)); break;
    default: {
        uint64_t s = (vf_seed * 0x9E3779B97F4A7C15ULL) ^ (salt * 0xD1B54A32D192ED03ULL) ^
                     (id == PAT_R1 ? 0x1234567ULL : 0xfedcba98ULL);
        if (s == 0) s = 1;
        vf_xs(&s); vf_xs(&s);
        for (i = 0; i < len; i++) buf[i] = (unsigned char) (vf_xs(&s) >> 32);
    } }
}

static void vf_init_seed(void)
{
    const char *s = getenv("VERIF_SEED");
    /* line-buffered: every protocol line is one write() < PIPE_BUF, so lines from forked workers never interleave */
    setvbuf(stdout, NULL, _IOLBF, 8192);
    if (s && *s) vf_seed = strtoull(s, NULL, 0);
    if (vf_seed == 0) vf_seed = 1;
}

static int vf_tier_thorough(void)
{
    const char *s = getenv("VERIF_TIER");
    return s && strcmp(s, "thorough") == 0;
}

/* run fn(i) for i in [lo,hi) over nw forked workers (i % nw == worker); children print their own
 * STAT/FAIL lines (line-buffered through a pipe-safe stdout flush); returns number of workers that
 * crashed (reported as FAIL by the parent). */
static int vf_parallel(int nw, long lo, long hi, void (*fn)(long), void (*fin)(void))
{
    int   w, bad = 0;
    pid_t pids[64];
    if (nw > 64) nw = 64;
    fflush(stdout);
    for (w = 0; w < nw; w++) {
        pids[w] = fork();
        if (pids[w] == 0) {
            long i;
            vf_worker_id = w;
            if (getenv("VERIF_NO_CRASH_HANDLER") == NULL && vf_ctx[0] != '(') { signal(SIGSEGV, vf_crash_handler); signal(SIGBUS, vf_crash_handler); signal(SIGABRT, vf_crash_handler); signal(SIGFPE, vf_crash_handler); signal(SIGILL, vf_crash_handler); }
            for (i = lo + w; i < hi; i += nw) {
                fn(i);
                if (vf_nfail >= VF_MAXFAIL) break;
            }
            if (fin) fin();
            fflush(stdout);
            _exit(vf_nfail ? 1 : 0);
        }
    }
    for (w = 0; w < nw; w++) {
        int st = 0;
        waitpid(pids[w], &st, 0);
        if (WIFSIGNALED(st)) {
            char k[64];
            snprintf(k, sizeof k, "worker-crash/%d", w);
            vf_fail(k, "worker %d died with signal %d", w, WTERMSIG(st));
            bad++;
        } else if (WEXITSTATUS(st) == 2) {     /* harness-internal error in a worker: infrastructure, not a violation */
            fprintf(stderr, "worker %d reported a harness error\n", w); fflush(stdout); _exit(2);
        } else if (WEXITSTATUS(st) != 0) {
            bad++;
        }
    }
    return bad;
}

/* page-guarded buffer: returns pointer p such that p[len] is the first byte of a PROT_NONE page
 * (end-guard) ; with `front` non-zero returns p such that p[-1] is in a PROT_NONE page. */
typedef struct { unsigned char *base; size_t maplen; } vf_guard;
static unsigned char *vf_guard_alloc(vf_guard *g, size_t len, int front)
{
    size_t pg = (size_t) sysconf(_SC_PAGESIZE);
    size_t body = ((len + pg - 1) / pg + (len == 0)) * pg;
    g->maplen = body + 2 * pg;
    g->base = mmap(NULL, g->maplen, PROT_READ | PROT_WRITE, MAP_PRIVATE | MAP_ANONYMOUS, -1, 0);
    if (g->base == MAP_FAILED) { perror("mmap"); exit(2); }
    mprotect(g->base, pg, PROT_NONE);
    mprotect(g->base + pg + body, pg, PROT_NONE);
    return front ? g->base + pg : g->base + pg + body - len;
}
static void vf_guard_free(vf_guard *g) { munmap(g->base, g->maplen); }

#endif
