/* C15: hex / Base64 codecs. Small-scope exhaustive language check of the decoders against an independent
 * table-driven reference written from the documented contract, plus exhaustive short encodes. */
#include "common.h"
#include <sodium.h>
#include <time.h>

static unsigned long long n_eval, n_nontriv, n_accept, n_reject;
static int thorough;

static const int VARIANTS[4] = { sodium_base64_VARIANT_ORIGINAL, sodium_base64_VARIANT_ORIGINAL_NO_PADDING,
                                 sodium_base64_VARIANT_URLSAFE, sodium_base64_VARIANT_URLSAFE_NO_PADDING };
#define NIGN 8
static const char *IGN[NIGN] = { NULL, "", " \n", ":", "\xe9", ":\xa0\xe9", "=", ":=" };      /* incl. ignore sets holding bytes >= 0x80 (Latin-1 / UTF-8 spacing) */
static const char STD[] = "ABCDEFGHIJKLMNOPQRSTUVWXYZabcdefghijklmnopqrstuvwxyz0123456789+/";
static const char URL[] = "ABCDEFGHIJKLMNOPQRSTUVWXYZabcdefghijklmnopqrstuvwxyz0123456789-_";

/* ------------------------------ reference model ------------------------------ */
static int in_set(const char *ign, unsigned char c)
{   /* membership over the set's characters: the terminating NUL is not a member */
    if (ign == NULL || c == 0) return 0;
    for (; *ign; ign++) if ((unsigned char) *ign == c) return 1;
    return 0;
}
static int b64val(int variant, unsigned char c)
{
    const char *t = (variant & 4) ? URL : STD; int i;
    if (c == 0) return -1;
    for (i = 0; i < 64; i++) if ((unsigned char) t[i] == c) return i;
    return -1;
}
static int hexval(unsigned char c)
{
    if (c >= '0' && c <= '9') return c - '0';
    if (c >= 'a' && c <= 'f') return c - 'a' + 10;
    if (c >= 'A' && c <= 'F') return c - 'A' + 10;
    return -1;
}
typedef struct { int ret; size_t bin_len; size_t end; unsigned char out[128]; } mres;

/* text[0..len), capacity cap, end pointer requested? */
static void model_b64(mres *r, const unsigned char *text, size_t len, const char *ign, size_t cap, int want_end, int variant)
{
    size_t pos = 0, n = 0; unsigned acc = 0, bits = 0; int ok = 1, padded = !(variant & 2);
    while (pos < len) {
        int d = b64val(variant, text[pos]);
        if (d < 0) { if (in_set(ign, text[pos])) { pos++; continue; } break; }
        acc = ((acc << 6) | (unsigned) d) & 0xffff; bits += 6;
        if (bits >= 8) {
            bits -= 8;
            if (n >= cap) { ok = 0; bits += 8; break; }   /* does not fit: fail, never truncate */
            r->out[n++] = (unsigned char) (acc >> bits);
        }
        pos++;
    }
    if (ok) {
        if (bits > 4 || (acc & ((1u << bits) - 1u)) != 0) ok = 0;            /* dangling char / non-zero trailing bits */
        else if (padded) {
            unsigned need = bits / 2;                                          /* 0, 1 or 2 '=' */
            while (need > 0) {
                if (pos >= len) { ok = 0; break; }
                if (text[pos] == '=') need--; else if (!in_set(ign, text[pos])) { ok = 0; break; }
                pos++;
            }
        }
    }
    if (ok) while (pos < len && in_set(ign, text[pos])) pos++;
    if (!want_end && pos != len) ok = 0;
    r->ret = ok ? 0 : -1; r->bin_len = ok ? n : 0; r->end = pos;
}
static void model_hex(mres *r, const unsigned char *text, size_t len, const char *ign, size_t cap, int want_end)
{
    size_t pos = 0, n = 0; int ok = 1, have = 0, hi = 0;
    while (pos < len) {
        int v = hexval(text[pos]);
        if (v < 0) { if (!have && in_set(ign, text[pos])) { pos++; continue; } break; }
        if (n >= cap) { ok = 0; break; }
        if (!have) { hi = v; have = 1; } else { r->out[n++] = (unsigned char) (hi * 16 + v); have = 0; }
        pos++;
    }
    if (have) { ok = 0; pos--; }                       /* incomplete digit pair */
    if (!want_end && pos != len) ok = 0;
    r->ret = ok ? 0 : -1; r->bin_len = ok ? n : 0; r->end = pos;
}
static size_t ref_b64enc(char *out, const unsigned char *in, size_t len, int variant)
{
    const char *t = (variant & 4) ? URL : STD; size_t i, o = 0;
    for (i = 0; i + 3 <= len; i += 3) {
        unsigned v = (unsigned) in[i] << 16 | (unsigned) in[i + 1] << 8 | in[i + 2];
        out[o++] = t[v >> 18]; out[o++] = t[(v >> 12) & 63]; out[o++] = t[(v >> 6) & 63]; out[o++] = t[v & 63];
    }
    if (len - i == 1) { unsigned v = (unsigned) in[i] << 16; out[o++] = t[v >> 18]; out[o++] = t[(v >> 12) & 63];
        if (!(variant & 2)) { out[o++] = '='; out[o++] = '='; } }
    else if (len - i == 2) { unsigned v = (unsigned) in[i] << 16 | (unsigned) in[i + 1] << 8;
        out[o++] = t[v >> 18]; out[o++] = t[(v >> 12) & 63]; out[o++] = t[(v >> 6) & 63];
        if (!(variant & 2)) out[o++] = '='; }
    out[o] = 0;
    return o;
}

/* ------------------------------ one decode case ------------------------------ */
#define CANARY 0xC7
static const char *txt(const unsigned char *t, size_t len) { return vf_hex(t, len); }

/* every other call places the text so that its last byte is the last byte before an inaccessible page (reading text[len] faults); the others
 * keep a valid digit right after the text (reading past len then shows in the result) */
static unsigned char *gp_end; static const unsigned char *cur_text; static size_t cur_len; static int cur_which, cur_ig, cur_end; static size_t cur_cap;
static void c15_crash_ctx(void) { snprintf(vf_ctx, sizeof vf_ctx, "%s/text=%s/ign=%d/cap=%zu/end=%d/text-ends-at-a-guard-page", cur_which < 4 ? "base642bin" : "hex2bin", vf_hex(cur_text, cur_len), cur_ig, cur_cap, cur_end); }
static void gp_init(void)
{
    size_t pg = (size_t) sysconf(_SC_PAGESIZE); unsigned char *b = mmap(NULL, 2 * pg, PROT_READ | PROT_WRITE, MAP_PRIVATE | MAP_ANONYMOUS, -1, 0);
    if (b == MAP_FAILED || mprotect(b + pg, pg, PROT_NONE)) exit(2);
    gp_end = b + pg; vf_crash_cb = c15_crash_ctx; strcpy(vf_ctx, "c15");
}
static void dec_case(int which /* 0..3 = b64 variant index, 4 = hex */, const unsigned char *text, size_t len,
                     int ig, size_t cap, int want_end)
{
    unsigned char out[160]; static unsigned char tbuf0[256]; unsigned char *tbuf = tbuf0;
    mres          m; size_t bl = 0xdead; const char *end = (const char *) 0x1; int r; char key[200];
    const char   *ign = IGN[ig];
    memset(out, CANARY, sizeof out);
    if ((n_eval & 1) && gp_end) { tbuf = gp_end - len; memcpy(tbuf, text, len); cur_text = tbuf; cur_len = len; cur_which = which; cur_ig = ig; cur_cap = cap; cur_end = want_end; }
    else { memcpy(tbuf, text, len); tbuf[len] = 'A'; }    /* the byte after the text is a valid digit: reading past len shows */
    memset(&m, 0, sizeof m);
    n_eval++;
    if (which < 4) {
        model_b64(&m, text, len, ign, cap, want_end, VARIANTS[which]);
        r = sodium_base642bin(out + 16, cap, (const char *) tbuf, len, ign, &bl, want_end ? &end : NULL, VARIANTS[which]);
    } else {
        model_hex(&m, text, len, ign, cap, want_end);
        r = sodium_hex2bin(out + 16, cap, (const char *) tbuf, len, ign, &bl, want_end ? &end : NULL);
    }
    if (m.ret == 0) n_accept++; else n_reject++;
    if (len == 3 && text[0] == 'Q' && (text[2] == '=' || text[2] == 0xE9) && cap == 1) VF_SAMPLE_CASE(6, "%s text=%s ignore=%s capacity=%zu end-pointer=%s -> reference: ret %d, %zu bytes, end offset %zu", which < 4 ? "base642bin" : "hex2bin", vf_hex(text, len), ign ? (ign[0] ? (ign[0] == ':' ? "\":\"" : "\" \\n\"") : "\"\"") : "NULL", cap, want_end ? "given" : "NULL", m.ret, m.bin_len, m.end);
    if (len) n_nontriv++;
    snprintf(key, sizeof key, "%s/text=%s/ign=%d/cap=%zu/end=%d", which < 4 ? (which == 0 ? "base642bin-orig" : which == 1 ?
             "base642bin-orig-nopad" : which == 2 ? "base642bin-url" : "base642bin-url-nopad") : "hex2bin", txt(text, len), ig, cap, want_end);
    if (r != m.ret) { vf_fail(key, "returned %d, reference says %d", r, m.ret); return; }
    { size_t i; for (i = 0; i < sizeof out; i++) if ((i < 16 || i >= 16 + cap) && out[i] != CANARY) { vf_fail(key, "wrote outside the output capacity (offset %ld)", (long) i - 16); return; } }
    if (want_end && (end < (const char *) tbuf || end > (const char *) tbuf + len)) { vf_fail(key, "end pointer outside the text"); return; }
    if (r == 0) {
        if (bl != m.bin_len) { vf_fail(key, "bin_len %zu, reference %zu", bl, m.bin_len); return; }
        if (memcmp(out + 16, m.out, bl) != 0) { vf_fail(key, "decoded %s, reference %s", vf_hex(out + 16, bl), vf_hex(m.out, bl)); return; }
        if (want_end && (size_t) (end - (const char *) tbuf) != m.end) { vf_fail(key, "end offset %zu, reference %zu", (size_t) (end - (const char *) tbuf), m.end); return; }
    }
}

static void all_combos(int which, const unsigned char *text, size_t len, int full)
{
    int ig, e; size_t cap, maxcap = which < 4 ? (len * 3) / 4 + 1 : len / 2 + 1;
    for (ig = 0; ig < NIGN; ig++) for (e = 0; e < 2; e++) {
        if (full) { for (cap = 0; cap <= maxcap; cap++) dec_case(which, text, len, ig, cap, e); }
        else { dec_case(which, text, len, ig, maxcap, e); dec_case(which, text, len, ig, maxcap > 1 ? maxcap - 2 : 0, e); }
    }
}

/* (a) all texts of length 0..3 over the full 8-bit alphabet (quick: length 3 over a 72-byte representative alphabet) */
static unsigned char rep[80]; static int nrep;
static void build_rep(void)
{
    const char *s = "ABEQZagfzFG09+/-_= \n\t:.,@[`{~!*"; int i;
    for (i = 0; s[i]; i++) rep[nrep++] = (unsigned char) s[i];
    { static const unsigned char x[] = { 0x00, 0x01, 0x1f, 0x7f, 0x80, 0xbf, 0xc1, 0xe9, 0xff, 'h', 'w', '4', '8', 'c', 'C', 'k', 'n', 'x', 'y', 'P', 'g', 'M' };
      for (i = 0; i < (int) sizeof x; i++) rep[nrep++] = x[i]; }
}
static void do_short(long first)
{
    unsigned char t[3]; int which, b, c;
    t[0] = (unsigned char) first;
    for (which = 0; which < 5; which++) {
        all_combos(which, t, 1, 1);
        if (first == 0) all_combos(which, t, 0, 1);
        for (b = 0; b < 256; b++) {
            t[1] = (unsigned char) b; all_combos(which, t, 2, 1);
            if (thorough) { for (c = 0; c < 256; c++) { t[2] = (unsigned char) c; all_combos(which, t, 3, 0); } }
        }
    }
    if (!thorough) {
        int i, j, k, isrep = 0;
        for (i = 0; i < nrep; i++) if (rep[i] == first) isrep = 1;
        if (!isrep) return;
        for (which = 0; which < 5; which++) for (j = 0; j < nrep; j++) for (k = 0; k < nrep; k++) {
            t[1] = rep[j]; t[2] = rep[k]; all_combos(which, t, 3, 1);
        }
    }
}

/* (b) all texts up to length N over a class alphabet */
static const unsigned char B64CLS[11] = { 'A', 'Q', 'E', 'B', '/', '_', '=', ' ', ':', 0x00, 0xE9 };
static const unsigned char HEXCLS[12] = { '0', '9', 'a', 'F', 'g', 'G', ' ', ':', 0x00, 0x80, '/', '@' };
static void class_family(int which_lo, int which_hi, const unsigned char *cls, int ncls, long item, int maxlen)
{
    unsigned char t[8]; int len, which, a = (int) (item / ncls), b = (int) (item % ncls);
    unsigned long c, n;
    if (a >= ncls) return;
    if (b == 0) { t[0] = cls[a]; for (which = which_lo; which <= which_hi; which++) all_combos(which, t, 1, 1); }
    for (len = 2; len <= maxlen; len++) {
        for (n = 1, c = 2; (int) c < len; c++) n *= (unsigned long) ncls;
        for (c = 0; c < n; c++) {
            unsigned long v = c; int i; t[0] = cls[a]; t[1] = cls[b];
            for (i = 2; i < len; i++) { t[i] = cls[v % (unsigned long) ncls]; v /= (unsigned long) ncls; }
            for (which = which_lo; which <= which_hi; which++) all_combos(which, t, (size_t) len, len <= 5);
        }
    }
}
static void do_class(long item)
{
    class_family(0, 3, B64CLS, 11, item, thorough ? 7 : 6);
    class_family(4, 4, HEXCLS, 12, item, thorough ? 7 : 6);
}

/* (c') the documented length macro sodium_base64_ENCODED_LEN with argument *expressions* of every operator-precedence class (a macro
 * argument is substituted textually, so an unparenthesised use changes the value for `a + b` but not for a plain variable): all
 * a, b in 0..47 x the four variants, oracle = length of the reference encoding of the value of the expression */
static size_t ref_enc_len(size_t n, int variant) { return (variant & 2) ? (n * 4 + 2) / 3 + 1 : ((n + 2) / 3) * 4 + 1; }
#define ML_CHECK(EXPR_LEN, EXPR_VAR, NAME) do { size_t got_ = (size_t) sodium_base64_ENCODED_LEN(EXPR_LEN, EXPR_VAR); size_t val_ = (size_t) (EXPR_LEN); int var_ = (int) (EXPR_VAR); \
        n_eval++; n_nontriv++; \
        if (got_ != ref_enc_len(val_, var_) || sodium_base64_encoded_len(val_, var_) != ref_enc_len(val_, var_)) { char key_[160]; snprintf(key_, sizeof key_, "base64_ENCODED_LEN-macro/%s/a=%zu/b=%zu/variant=%d", NAME, a, b, var_); \
            vf_fail(key_, "macro gives %zu, the encoding of %zu bytes needs %zu (with NUL)", got_, val_, ref_enc_len(val_, var_)); } } while (0)
static void macro_args(void)
{
    size_t a, b; int v;
    for (v = 0; v < 4; v++) for (a = 0; a < 48; a++) for (b = 0; b < 48; b++) {
        const int var = VARIANTS[v]; const unsigned char lo = (unsigned char) (var & 1), hi = (unsigned char) (var & 6);
        ML_CHECK(a + b, var, "a+b");
        ML_CHECK(a + b + 1U, var, "a+b+1");
        if (a >= b) ML_CHECK(a - b, var, "a-b");
        ML_CHECK(a | b, var, "a|b");
        ML_CHECK(a ^ b, var, "a^b");
        ML_CHECK(a & b, var, "a&b");
        ML_CHECK(a << 1, var, "a<<1");
        ML_CHECK(a >> 1, var, "a>>1");
        ML_CHECK(b ? a : 7U, var, "b?a:7");
        ML_CHECK(a * 2U + b, var, "a*2+b");
        ML_CHECK(a % 5U, var, "a%5");
        ML_CHECK(a, lo | hi, "variant=lo|hi");
        ML_CHECK(a, hi + lo, "variant=hi+lo");
        ML_CHECK(a, b & 1U ? var : var, "variant=?:");
        ML_CHECK(a + b, lo | hi, "a+b,variant=lo|hi");
    }
}

/* (c) encoders + every 1-mutation of valid encodings, byte strings of length 0..70 */
static const unsigned char MUT[14] = { 'A', 'B', 'Q', '/', '_', '+', '-', '=', ' ', ':', 0x00, 0xE9, 'g', '0' };
static void enc_check(const unsigned char *bin, size_t len)
{
    int v; char want[200], got[260]; char key[160];
    for (v = 0; v < 4; v++) {
        size_t wl = ref_b64enc(want, bin, len, VARIANTS[v]), extra;
        n_eval++; n_nontriv++;
        if (sodium_base64_encoded_len(len, VARIANTS[v]) != wl + 1 || sodium_base64_ENCODED_LEN(len, VARIANTS[v]) != wl + 1) {
            snprintf(key, sizeof key, "base64_encoded_len/v=%d/len=%zu", VARIANTS[v], len); vf_fail(key, "wrong encoded length"); }
        for (extra = 1; extra <= 9; extra += 4) {
            size_t i; char *r;
            memset(got, CANARY, sizeof got);
            r = sodium_bin2base64(got + 8, wl + extra, bin, len, VARIANTS[v]);
            snprintf(key, sizeof key, "bin2base64/v=%d/bin=%s/maxlen=%zu", VARIANTS[v], vf_hex(bin, len), wl + extra);
            if (r != got + 8 || memcmp(got + 8, want, wl) != 0) { vf_fail(key, "text '%.*s' want '%s'", (int) wl, got + 8, want); break; }
            for (i = wl; i < wl + extra; i++) if (got[8 + i] != 0) { vf_fail(key, "remainder byte %zu not NUL", i); break; }
            for (i = 0; i < sizeof got; i++) if ((i < 8 || i >= 8 + wl + extra) && (unsigned char) got[i] != CANARY) { vf_fail(key, "wrote outside maxlen"); break; }
        }
    }
    { size_t i; char *r; static const char hx[] = "0123456789abcdef";
      n_eval++; n_nontriv++;
      for (i = 0; i < len; i++) { want[2 * i] = hx[bin[i] >> 4]; want[2 * i + 1] = hx[bin[i] & 15]; } want[2 * len] = 0;
      memset(got, CANARY, sizeof got);
      r = sodium_bin2hex(got + 8, 2 * len + 1, bin, len);
      snprintf(key, sizeof key, "bin2hex/bin=%s", vf_hex(bin, len));
      if (r != got + 8 || memcmp(got + 8, want, 2 * len + 1) != 0) vf_fail(key, "text mismatch");
      for (i = 0; i < sizeof got; i++) if ((i < 8 || i >= 8 + 2 * len + 1) && (unsigned char) got[i] != CANARY) { vf_fail(key, "wrote outside maxlen"); break; } }
}
static void mutate_and_decode(int which, const unsigned char *text, size_t tl, size_t binlen)
{
    unsigned char m[220]; size_t p; int k, ig, e;
    size_t caps[4] = { binlen, binlen ? binlen - 1 : 0, binlen + 1, 0 }; int ci, nc = thorough ? 4 : 2;
#define RUN(T, L) for (ig = 0; ig < NIGN; ig++) if (thorough || ig != 1) for (e = 0; e < 2; e++) for (ci = 0; ci < nc; ci++) dec_case(which, T, L, ig, caps[ci], e)
    RUN(text, tl);
    for (p = 0; p <= tl; p++) {
        for (k = 0; k < 14; k++) {                 /* insertion */
            memcpy(m, text, p); m[p] = MUT[k]; memcpy(m + p + 1, text + p, tl - p); RUN(m, tl + 1);
            if (p < tl) { memcpy(m, text, tl); m[p] = MUT[k]; RUN(m, tl); }   /* replacement */
        }
        if (p < tl) { memcpy(m, text, p); memcpy(m + p, text + p + 1, tl - p - 1); RUN(m, tl - 1); }   /* deletion */
        if (p < tl) { memcpy(m, text, p); RUN(m, p); }                                                  /* truncation */
    }
    /* trailing padding added */
    memcpy(m, text, tl); m[tl] = '='; RUN(m, tl + 1); m[tl + 1] = '='; RUN(m, tl + 2);
#undef RUN
}
/* (d) an encoded field followed by further data that the length argument covers (how a parser of '$'-separated fields calls the decoders):
 * valid encoding + stopper + tail of 0..24 more characters, tail made of alphabet characters, of stoppers, or mixed; capacities exact / +1 / -1 / generous */
static void field_with_tail(int which, const unsigned char *text, size_t tl, size_t binlen)
{
    static const unsigned char STOP[5] = { '$', ',', 0x00, '=', '*' }; unsigned char m[260]; int s, k, kind, ig, e, ci;
    size_t caps[4] = { binlen, binlen + 1, binlen ? binlen - 1 : 0, binlen + 40 };
    for (s = 0; s < 5; s++) for (kind = 0; kind < 3; kind++) for (k = 0; k <= 24; k += (thorough || k < 10 ? 1 : 7)) {
        int i; memcpy(m, text, tl); m[tl] = STOP[s];
        for (i = 0; i < k; i++) m[tl + 1 + i] = kind == 0 ? (which < 4 ? "QUJD"[i & 3] : "4a"[i & 1]) : kind == 1 ? '$' : (i % 5 == 4 ? '$' : 'A' + (i % 6));
        for (ig = 0; ig < NIGN; ig++) if (thorough || ig != 1) for (e = 0; e < 2; e++) for (ci = 0; ci < 4; ci++) dec_case(which, m, tl + 1 + (size_t) k, ig, caps[ci], e);
    }
}
static void do_roundtrip(long L)
{
    size_t len = (size_t) L; unsigned char bin[80]; char text[200]; int p, v;
    for (p = 0; p < PAT_N; p++) {
        vf_pat(bin, len, p, 21 + len);
        enc_check(bin, len);
        if (p == PAT_Z || p == PAT_F || p == PAT_R1 || thorough) {
            for (v = 0; v < 4; v++) { size_t tl = ref_b64enc(text, bin, len, VARIANTS[v]); mutate_and_decode(v, (unsigned char *) text, tl, len); if (len <= 48) field_with_tail(v, (unsigned char *) text, tl, len); }
            { size_t i; static const char hx[] = "0123456789abcdef", HX[] = "0123456789ABCDEF";
              for (i = 0; i < len; i++) { text[2 * i] = (i & 1 ? HX : hx)[bin[i] >> 4]; text[2 * i + 1] = hx[bin[i] & 15]; }
              mutate_and_decode(4, (unsigned char *) text, 2 * len, len); if (len <= 48) field_with_tail(4, (unsigned char *) text, 2 * len, len); }
        }
    }
}
/* encoders at lengths whose high bits matter (a length narrowed to 8 or 16 bits changes the remainder / the length formula): exact-size output,
 * reference text, decode back */
static void do_enc_long(long idx)
{
    static const size_t LL[] = { 254, 255, 256, 257, 258, 259, 300, 510, 511, 512, 513, 514, 767, 768, 769, 1000, 4095, 4096, 4097, 65535, 65536, 65537, 65538, 70000 };
    size_t len = LL[idx], wl, i; unsigned char *bin = malloc(len + 1), *back = malloc(len + 1); char *want = malloc(len * 2 + 16), *got = malloc(len * 2 + 64); int v; char key[96]; size_t bl;
    vf_pat(bin, len, PAT_R1, 31 + len);
    for (v = 0; v < 4; v++) {
        wl = ref_b64enc(want, bin, len, VARIANTS[v]); n_eval++; n_nontriv++;
        snprintf(key, sizeof key, "bin2base64/v=%d/len=%zu", VARIANTS[v], len);
        if (sodium_base64_encoded_len(len, VARIANTS[v]) != wl + 1 || sodium_base64_ENCODED_LEN(len, VARIANTS[v]) != wl + 1) vf_fail(key, "wrong encoded length");
        memset(got, CANARY, wl + 40);
        if (sodium_bin2base64(got + 8, wl + 1, bin, len, VARIANTS[v]) != got + 8 || memcmp(got + 8, want, wl + 1)) { vf_fail(key, "encoded text differs from the reference"); continue; }
        for (i = 0; i < 8; i++) if ((unsigned char) got[i] != CANARY || (unsigned char) got[8 + wl + 1 + i] != CANARY) { vf_fail(key, "wrote outside maxlen"); break; }
        if (sodium_base642bin(back, len, want, wl, NULL, &bl, NULL, VARIANTS[v]) != 0 || bl != len || memcmp(back, bin, len)) vf_fail(key, "decoding the reference text does not give the bytes back");
    }
    { static const char hx[] = "0123456789abcdef"; for (i = 0; i < len; i++) { want[2 * i] = hx[bin[i] >> 4]; want[2 * i + 1] = hx[bin[i] & 15]; } want[2 * len] = 0; n_eval++; n_nontriv++;
      snprintf(key, sizeof key, "bin2hex/len=%zu", len);
      if (sodium_bin2hex(got, 2 * len + 1, bin, len) != got || memcmp(got, want, 2 * len + 1)) vf_fail(key, "text mismatch");
      if (sodium_hex2bin(back, len, want, 2 * len, NULL, &bl, NULL) != 0 || bl != len || memcmp(back, bin, len)) vf_fail(key, "decoding does not give the bytes back"); }
    free(bin); free(back); free(want); free(got);
}
/* every byte string of length 1..3 through the encoders and back (first byte = worker index) */
static void do_enc_short(long first)
{
    unsigned char b[3]; int x, y; b[0] = (unsigned char) first;
    enc_check(b, 1); if (first == 0) enc_check(b, 0);
    for (x = 0; x < 256; x++) { b[1] = (unsigned char) x; enc_check(b, 2);
        for (y = 0; y < 256; y += (thorough ? 1 : 5)) { b[2] = (unsigned char) ((y + x) & 0xff); enc_check(b, 3); } }
}

static void fin(void)
{
    vf_stat("evaluations", n_eval); vf_stat("nontrivial", n_nontriv); vf_stat("model_accepts", n_accept); vf_stat("model_rejects", n_reject);
    n_eval = n_nontriv = n_accept = n_reject = 0;
}

/* maxlen too small must reach the misuse handler */
static void misuse_exit(void) { _exit(77); }
static void misuse_probes(void)
{
    int k;
    for (k = 0; k < 4; k++) {
        pid_t pid; int st;
        fflush(stdout); pid = fork();
        if (pid == 0) {
            char o[64]; unsigned char b[8] = { 1, 2, 3, 4, 5, 6, 7, 8 };
            sodium_set_misuse_handler(misuse_exit);
            if (k == 0) sodium_bin2hex(o, 16, b, 8);                                   /* needs 17 */
            if (k == 1) sodium_bin2base64(o, 12, b, 8, sodium_base64_VARIANT_ORIGINAL); /* needs 13 */
            if (k == 2) sodium_bin2base64(o, 11, b, 8, sodium_base64_VARIANT_URLSAFE_NO_PADDING); /* needs 12 */
            if (k == 3) sodium_bin2base64(o, 64, b, 8, 2);                             /* invalid variant */
            _exit(0);
        }
        waitpid(pid, &st, 0); n_eval++; n_nontriv++;
        if (!(WIFEXITED(st) && WEXITSTATUS(st) == 77)) { char key[48]; snprintf(key, sizeof key, "encoder-misuse/%d", k); vf_fail(key, "undersized maxlen / bad variant not refused (status %x)", st); }
    }
}

int main(void)
{
    vf_init_seed();
    thorough = vf_tier_thorough();
    if (sodium_init() < 0) return 2;
    gp_init();
    build_rep();
    vf_parallel(16, 0, 256, do_short, fin); printf("INFO t_short %ld\n", (long) time(NULL));
    vf_parallel(16, 0, 144, do_class, fin); printf("INFO t_class %ld\n", (long) time(NULL));
    vf_parallel(16, 0, thorough ? 100 : 71, do_roundtrip, fin);
    printf("INFO t_rt %ld\n", (long) time(NULL));
    vf_parallel(16, 0, 256, do_enc_short, fin); printf("INFO t_enc %ld\n", (long) time(NULL));
    snprintf(vf_ctx, sizeof vf_ctx, "c15 encoders at long lengths"); vf_crash_cb = NULL;
    vf_parallel(16, 0, 24, do_enc_long, fin);
    macro_args(); fin();
    misuse_probes(); fin();
    vf_sample("base642bin variant=ORIGINAL text=\"QUJD\" capacity=2 end=given -> must fail (needs 3 bytes), nothing written past 2");
    vf_sample("base642bin variant=URLSAFE text=\"QQ=:=\" ignore=\":\" -> 1 byte 0x41, end at 5 (ignored char inside the padding)");
    vf_sample("base642bin variant=ORIGINAL_NO_PADDING text=\"QR\" -> rejected: non-zero trailing bits");
    vf_sample("hex2bin text=\"4 1\" ignore=\" \" -> rejected: ignore character between the two digits of a pair");
    vf_sample("hex2bin text=41 00 34 32 (embedded NUL) ignore=\":\" end=NULL -> reference rejects (NUL is not in the ignore set)");
    return 0;
}
