/* C11 assembly / gcc-binary pass: runs one operation on a list of secrets inside ONE process (after a warm-up call), each run bracketed by
 * stores to vt_marker, so that `valgrind --tool=lackey --trace-mem=yes` yields, per secret, the sequence of executed instruction addresses
 * and data addresses. The driver (vf/props/c11.py) hashes each segment and requires all segments of an operation to be identical.
 * usage: c11_asm <op> ; prints "MARKER <address>" and "NSECRETS <n>". */
#include "common.h"
#include <sodium.h>

volatile unsigned long vt_marker;
static unsigned char SEC[16][96], PUBP[32], EDP[32], OUT[256], NONCE[24], MSG[200], SK[64];
static int nsec; static unsigned char CAND[4][64];

static void build_secrets(size_t slen)
{
    int k; static const int bits[6] = { 3, 77, 130, 200, 254, 255 };
    vf_pat(SEC[0], slen, PAT_R1, 1400); nsec = 1;
    for (k = 0; k < 6; k++) { memcpy(SEC[nsec], SEC[0], slen); SEC[nsec][(bits[k] >> 3) % slen] ^= (unsigned char) (1u << (bits[k] & 7)); nsec++; }
    memcpy(SEC[nsec], SEC[0], slen); SEC[nsec][5] = 0x00; nsec++; memcpy(SEC[nsec], SEC[0], slen); SEC[nsec][17] = 0xff; nsec++; memcpy(SEC[nsec], SEC[0], slen); SEC[nsec][(slen - 1)] = 0x80; nsec++;
    vf_pat(SEC[nsec], slen, PAT_R2, 1401); nsec++; memset(SEC[nsec], 0xff, slen); nsec++; vf_pat(SEC[nsec], slen, PAT_C, 1402); nsec++;
}
int main(int argc, char **argv)
{
    const char *op = argc > 1 ? argv[1] : "x25519"; int k, which; unsigned char seed[32]; size_t slen = 32;
    if (sodium_init() < 0) return 2;
    vf_pat(seed, 32, PAT_R1, 1310); crypto_scalarmult_base(PUBP, seed); crypto_scalarmult_ed25519_base(EDP, seed); vf_pat(NONCE, 24, PAT_C, 1); vf_pat(MSG, sizeof MSG, PAT_C, 2);
    { unsigned char pk[32]; crypto_sign_seed_keypair(pk, SK, seed); }
    which = !strcmp(op, "x25519") ? 0 : !strcmp(op, "x25519_base") ? 1 : !strcmp(op, "salsa20_xor") ? 2 : !strcmp(op, "sign") ? 3 : !strcmp(op, "ed25519_mult") ? 4 : !strcmp(op, "xsalsa20_xor") ? 5 : !strcmp(op, "poly1305") ? 6 : !strcmp(op, "mac_verify") ? 7 : !strcmp(op, "secretbox_open") ? 8 : -1;
    if (which < 0) return 2;
    if (which == 2 || which == 5 || which == 6 || which == 7 || which == 8) slen = 96;          /* key(32) || message(64) */
    build_secrets(slen);
    crypto_auth(CAND[0], SEC[0] + 32, 64, SEC[0]); CAND[0][31] ^= 1; crypto_auth_hmacsha256(CAND[1], SEC[0] + 32, 64, SEC[0]); CAND[1][31] ^= 1;
    crypto_auth_hmacsha512(CAND[2], SEC[0] + 32, 64, SEC[0]); CAND[2][63] ^= 1; crypto_onetimeauth(CAND[3], SEC[0] + 32, 64, SEC[0]); CAND[3][15] ^= 1;
    printf("MARKER %p\nNSECRETS %d\nFEATURES avx=%d avx2=%d\n", (void *) &vt_marker, nsec, sodium_runtime_has_avx(), sodium_runtime_has_avx2()); fflush(stdout);
    for (k = -1; k < nsec; k++) {                   /* k = -1: warm-up, discarded by the driver */
        static unsigned char CUR[96]; const unsigned char *s = CUR;      /* same address for every secret */
        memcpy(CUR, SEC[k < 0 ? 0 : k], slen);
        vt_marker = 0x1000UL + (unsigned long) (k + 1);
        switch (which) {
        case 0: crypto_scalarmult(OUT, s, PUBP); break;
        case 1: crypto_scalarmult_base(OUT, s); break;
        case 2: crypto_stream_salsa20_xor(OUT, s + 32, 64, NONCE, s); break;
        case 3: memcpy(SK, s, 32); crypto_sign_detached(OUT, NULL, MSG, 100, SK); break;
        case 4: crypto_scalarmult_ed25519(OUT, s, EDP); break;
        case 5: crypto_stream_xsalsa20_xor(OUT, s + 32, 64, NONCE, s); break;
        case 6: crypto_onetimeauth(OUT, s + 32, 64, s); break;
        case 7: /* every MAC verification wrapper against fixed public candidate tags.  The candidates are the correct tags of secret 0 with the LAST byte
                 * changed: under secret 0 the comparison differs only at the end, under every other secret at the start - an early-exit comparison shows */
            OUT[200] = (unsigned char) (crypto_auth_verify(CAND[0], s + 32, 64, s) | crypto_auth_hmacsha256_verify(CAND[1], s + 32, 64, s) | crypto_auth_hmacsha512_verify(CAND[2], s + 32, 64, s) |
                                        crypto_auth_hmacsha512256_verify(CAND[0], s + 32, 64, s) | crypto_onetimeauth_verify(CAND[3], s + 32, 64, s)); break;
        case 8: OUT[200] = (unsigned char) crypto_secretbox_open_easy(OUT, MSG, 80, NONCE, s); break;     /* forged box under a secret key: rejected, trace must not depend on the key */
        }
        vt_marker = 0x2000UL + (unsigned long) (k + 1);
    }
    return 0;
}
