/* C11: secret independence of control flow and memory addresses, decided as a bounded 2-safety enumeration: for equal public inputs, every
 * member of a secret alphabet must produce the same sequence of CFG edges and load/store addresses as its base secret. The library is
 * compiled with SanitizerCoverage trace-pc/trace-loads/trace-stores and linked with trace/rt.c; base and variant run in the same
 * process, from the same call site, on the same buffers, after a warm-up call. One process = one backend configuration. */
#include "common.h"
#include <sodium.h>
#include "../trace/rt.h"

static unsigned long long n_eval, n_nontriv, n_ops, n_events_max;
static int thorough;

/* fixed buffers: identical addresses in every run of a pair */
static unsigned char SEC[512], PUBP[64], OUT[1024], OUT2[256], NONCE[32], MSGPUB[256];
static size_t slen, publen;

typedef struct { const char *name; size_t fixed_slen; int key_plus_msg /* secret = key(32) || message(publen) */; int pub_lo, pub_hi; int no_zero_base; int needs; void (*run)(void); } op;
enum { NEED_NONE = 0, NEED_GCM = 1, NEED_AESNI = 2 };

/* ---------------- operations ---------------- */
static void r_verify16(void) { OUT[0] = (unsigned char) crypto_verify_16(SEC, SEC + 16); }
static void r_verify32(void) { OUT[0] = (unsigned char) crypto_verify_32(SEC, SEC + 32); }
static void r_verify64(void) { OUT[0] = (unsigned char) crypto_verify_64(SEC, SEC + 64); }
static void r_memcmp(void) { OUT[0] = (unsigned char) sodium_memcmp(SEC, SEC + publen, publen); }
static void r_compare(void) { OUT[0] = (unsigned char) sodium_compare(SEC, SEC + publen, publen); }
static void r_is_zero(void) { OUT[0] = (unsigned char) sodium_is_zero(SEC, publen); }
static void r_bin2hex(void) { sodium_bin2hex((char *) OUT, 2 * publen + 1, SEC, publen); }
static void r_b64_1(void) { sodium_bin2base64((char *) OUT, sizeof OUT, SEC, publen, 1); }
static void r_b64_3(void) { sodium_bin2base64((char *) OUT, sizeof OUT, SEC, publen, 3); }
static void r_b64_5(void) { sodium_bin2base64((char *) OUT, sizeof OUT, SEC, publen, 5); }
static void r_b64_7(void) { sodium_bin2base64((char *) OUT, sizeof OUT, SEC, publen, 7); }
static void r_unpad(void) { size_t l; OUT[0] = (unsigned char) sodium_unpad(&l, SEC, 64, 16); OUT[1] = (unsigned char) l; }
static void r_x25519(void) { OUT[40] = (unsigned char) crypto_scalarmult(OUT, SEC, PUBP); }
static void r_x25519_base(void) { crypto_scalarmult_base(OUT, SEC); }
static void r_sign_keypair(void) { crypto_sign_seed_keypair(OUT, OUT + 32, SEC); }
static unsigned char SK[64], RISP[32], EDP[32];
static void r_sign(void) { memcpy(SK, SEC, 32); crypto_sign_detached(OUT, NULL, MSGPUB, publen, SK); }
static void r_ed_mult(void) { OUT[40] = (unsigned char) crypto_scalarmult_ed25519(OUT, SEC, EDP); }
static void r_ed_mult_nc(void) { OUT[40] = (unsigned char) crypto_scalarmult_ed25519_noclamp(OUT, SEC, EDP); }
static void r_ed_base(void) { OUT[40] = (unsigned char) crypto_scalarmult_ed25519_base(OUT, SEC); }
static void r_ed_base_nc(void) { OUT[40] = (unsigned char) crypto_scalarmult_ed25519_base_noclamp(OUT, SEC); }
static void r_ris_mult(void) { OUT[40] = (unsigned char) crypto_scalarmult_ristretto255(OUT, SEC, RISP); }
static void r_ris_base(void) { OUT[40] = (unsigned char) crypto_scalarmult_ristretto255_base(OUT, SEC); }
static void r_sc_add(void) { crypto_core_ed25519_scalar_add(OUT, SEC, SEC + 32); }
static void r_sc_sub(void) { crypto_core_ed25519_scalar_sub(OUT, SEC, SEC + 32); }
static void r_sc_mul(void) { crypto_core_ed25519_scalar_mul(OUT, SEC, SEC + 32); }
static void r_sc_neg(void) { crypto_core_ed25519_scalar_negate(OUT, SEC); }
static void r_sc_compl(void) { crypto_core_ed25519_scalar_complement(OUT, SEC); }
static void r_sc_inv(void) { OUT[40] = (unsigned char) crypto_core_ed25519_scalar_invert(OUT, SEC); }
static void r_sc_reduce(void) { crypto_core_ed25519_scalar_reduce(OUT, SEC); }
static void r_sc_canon(void) { OUT[0] = (unsigned char) crypto_core_ed25519_scalar_is_canonical(SEC); }
static void r_ris_sc_canon(void) { OUT[0] = (unsigned char) crypto_core_ristretto255_scalar_is_canonical(SEC); }
static void r_ris_sc_inv(void) { OUT[40] = (unsigned char) crypto_core_ristretto255_scalar_invert(OUT, SEC); }
static void r_chacha(void) { crypto_stream_chacha20_xor(OUT, SEC + 32, publen, NONCE, SEC); }
static void r_chacha_ietf(void) { crypto_stream_chacha20_ietf_xor(OUT, SEC + 32, publen, NONCE, SEC); }
static void r_xchacha(void) { crypto_stream_xchacha20_xor(OUT, SEC + 32, publen, NONCE, SEC); }
static void r_salsa(void) { crypto_stream_salsa20_xor(OUT, SEC + 32, publen, NONCE, SEC); }
static void r_xsalsa(void) { crypto_stream_xsalsa20_xor(OUT, SEC + 32, publen, NONCE, SEC); }
static void r_poly(void) { crypto_onetimeauth(OUT, SEC + 32, publen, SEC); }
static void r_poly_verify(void) { OUT[0] = (unsigned char) crypto_onetimeauth_verify(OUT2, SEC + 32, publen, SEC); }
static void r_auth(void) { crypto_auth(OUT, SEC + 32, publen, SEC); }
static void r_auth256(void) { crypto_auth_hmacsha256(OUT, SEC + 32, publen, SEC); }
static void r_auth_verify(void) { OUT[0] = (unsigned char) crypto_auth_verify(OUT2, SEC + 32, publen, SEC); }
static void r_auth256_verify(void) { OUT[0] = (unsigned char) crypto_auth_hmacsha256_verify(OUT2, SEC + 32, publen, SEC); }
static void r_auth512_verify(void) { OUT[0] = (unsigned char) crypto_auth_hmacsha512_verify(OUT2, SEC + 32, publen, SEC); }
static void r_auth512(void) { crypto_auth_hmacsha512(OUT, SEC + 32, publen, SEC); }
static void r_shorthashx(void) { crypto_shorthash_siphashx24(OUT, SEC + 32, publen, SEC); }
static void r_sha256(void) { crypto_hash_sha256(OUT, SEC + 32, publen); }
static void r_sha512(void) { crypto_hash_sha512(OUT, SEC + 32, publen); }
static void r_blake(void) { crypto_generichash(OUT, 32, SEC + 32, publen, SEC, 32); }
static void r_siphash(void) { crypto_shorthash(OUT, SEC + 32, publen, SEC); }
static void r_kdf(void) { crypto_kdf_derive_from_key(OUT, 32, 5, "context_", SEC); }
static void r_aead(void) { unsigned long long l; crypto_aead_chacha20poly1305_ietf_encrypt(OUT, &l, SEC + 32, publen, MSGPUB, 13, NULL, NONCE, SEC); }
static void r_aead_x(void) { unsigned long long l; crypto_aead_xchacha20poly1305_ietf_encrypt(OUT, &l, SEC + 32, publen, MSGPUB, 13, NULL, NONCE, SEC); }
static void r_aead_dec(void) { unsigned long long l; OUT[900] = (unsigned char) crypto_aead_chacha20poly1305_ietf_decrypt(OUT, &l, NULL, OUT2, publen + 16, MSGPUB, 13, NONCE, SEC); }
static void r_secretbox(void) { crypto_secretbox_easy(OUT, SEC + 32, publen, NONCE, SEC); }
static void r_gcm(void) { unsigned long long l; crypto_aead_aes256gcm_encrypt(OUT, &l, SEC + 32, publen, MSGPUB, 13, NULL, NONCE, SEC); }
static void r_aegis128l(void) { unsigned long long l; crypto_aead_aegis128l_encrypt(OUT, &l, SEC + 32, publen, MSGPUB, 13, NULL, NONCE, SEC); }
static void r_aegis256(void) { unsigned long long l; crypto_aead_aegis256_encrypt(OUT, &l, SEC + 32, publen, MSGPUB, 13, NULL, NONCE, SEC); }
static void r_box_beforenm(void) { OUT[40] = (unsigned char) crypto_box_beforenm(OUT, PUBP, SEC); }
static void r_sk_to_curve(void) { memcpy(SK, SEC, 32); crypto_sign_ed25519_sk_to_curve25519(OUT, SK); }
static void r_secretstream(void) { crypto_secretstream_xchacha20poly1305_state st; memcpy(st.k, SEC, 32); memcpy(st.nonce, NONCE, 12); memset(st._pad, 0, 8); crypto_secretstream_xchacha20poly1305_push(&st, OUT, NULL, SEC + 32, publen, NULL, 0, 0); }

static const op OPS[] = {
    { "crypto_verify_16", 32, 0, 0, 0, 0, 0, r_verify16 }, { "crypto_verify_32", 64, 0, 0, 0, 0, 0, r_verify32 }, { "crypto_verify_64", 128, 0, 0, 0, 0, 0, r_verify64 },
    { "sodium_memcmp", 0, 2, 0, 70, 0, 0, r_memcmp }, { "sodium_compare", 0, 2, 0, 70, 0, 0, r_compare }, { "sodium_is_zero", 0, 3, 0, 70, 0, 0, r_is_zero },
    { "sodium_bin2hex", 0, 3, 0, 70, 0, 0, r_bin2hex }, { "sodium_bin2base64(orig)", 0, 3, 0, 70, 0, 0, r_b64_1 }, { "sodium_bin2base64(orig-nopad)", 0, 3, 0, 70, 0, 0, r_b64_3 },
    { "sodium_bin2base64(url)", 0, 3, 0, 70, 0, 0, r_b64_5 }, { "sodium_bin2base64(url-nopad)", 0, 3, 0, 70, 0, 0, r_b64_7 }, { "sodium_unpad", 64, 0, 0, 0, 0, 0, r_unpad },
    { "crypto_scalarmult(X25519)", 32, 0, 0, 0, 0, 0, r_x25519 }, { "crypto_scalarmult_base", 32, 0, 0, 0, 0, 0, r_x25519_base }, { "crypto_box_beforenm", 32, 0, 0, 0, 0, 0, r_box_beforenm },
    { "crypto_sign_seed_keypair", 32, 0, 0, 0, 0, 0, r_sign_keypair }, { "crypto_sign_detached", 32, 0, 0, 100, 0, 0, r_sign }, { "crypto_sign_ed25519_sk_to_curve25519", 32, 0, 0, 0, 0, 0, r_sk_to_curve },
    { "crypto_scalarmult_ed25519", 32, 0, 0, 0, 0, 0, r_ed_mult }, { "crypto_scalarmult_ed25519_noclamp", 32, 0, 0, 0, 1, 0, r_ed_mult_nc },
    { "crypto_scalarmult_ed25519_base", 32, 0, 0, 0, 0, 0, r_ed_base }, { "crypto_scalarmult_ed25519_base_noclamp", 32, 0, 0, 0, 1, 0, r_ed_base_nc },
    { "crypto_scalarmult_ristretto255", 32, 0, 0, 0, 1, 0, r_ris_mult }, { "crypto_scalarmult_ristretto255_base", 32, 0, 0, 0, 1, 0, r_ris_base },
    { "crypto_core_ed25519_scalar_add", 64, 0, 0, 0, 0, 0, r_sc_add }, { "crypto_core_ed25519_scalar_sub", 64, 0, 0, 0, 0, 0, r_sc_sub }, { "crypto_core_ed25519_scalar_mul", 64, 0, 0, 0, 0, 0, r_sc_mul },
    { "crypto_core_ed25519_scalar_negate", 32, 0, 0, 0, 0, 0, r_sc_neg }, { "crypto_core_ed25519_scalar_complement", 32, 0, 0, 0, 0, 0, r_sc_compl },
    { "crypto_core_ed25519_scalar_is_canonical", 32, 0, 0, 0, 0, 0, r_sc_canon }, { "crypto_core_ristretto255_scalar_is_canonical", 32, 0, 0, 0, 0, 0, r_ris_sc_canon },
    { "crypto_core_ristretto255_scalar_invert", 32, 0, 0, 0, 0, 0, r_ris_sc_inv },
    { "crypto_core_ed25519_scalar_invert", 32, 0, 0, 0, 0, 0, r_sc_inv }, { "crypto_core_ed25519_scalar_reduce", 64, 0, 0, 0, 0, 0, r_sc_reduce },
    { "crypto_stream_chacha20_xor", 0, 1, 0, 130, 0, 0, r_chacha }, { "crypto_stream_chacha20_ietf_xor", 0, 1, 0, 130, 0, 0, r_chacha_ietf }, { "crypto_stream_xchacha20_xor", 0, 1, 0, 130, 0, 0, r_xchacha },
    { "crypto_stream_salsa20_xor", 0, 1, 0, 130, 0, 0, r_salsa }, { "crypto_stream_xsalsa20_xor", 0, 1, 0, 130, 0, 0, r_xsalsa },
    { "crypto_onetimeauth", 0, 1, 0, 130, 0, 0, r_poly }, { "crypto_onetimeauth_verify", 0, 1, 0, 130, 0, 0, r_poly_verify }, { "crypto_auth", 0, 1, 0, 130, 0, 0, r_auth }, { "crypto_auth_hmacsha256_verify", 0, 1, 0, 130, 0, 0, r_auth256_verify }, { "crypto_auth_hmacsha512_verify", 0, 1, 0, 130, 0, 0, r_auth512_verify }, { "crypto_auth_hmacsha512", 0, 1, 0, 130, 0, 0, r_auth512 }, { "crypto_shorthash_siphashx24", 0, 1, 0, 130, 0, 0, r_shorthashx },
    { "crypto_auth_hmacsha256", 0, 1, 0, 130, 0, 0, r_auth256 },
    { "crypto_auth_verify", 0, 1, 0, 130, 0, 0, r_auth_verify }, { "crypto_hash_sha256", 0, 1, 0, 130, 0, 0, r_sha256 }, { "crypto_hash_sha512", 0, 1, 0, 130, 0, 0, r_sha512 },
    { "crypto_generichash(keyed)", 0, 1, 0, 130, 0, 0, r_blake }, { "crypto_shorthash", 0, 1, 0, 130, 0, 0, r_siphash }, { "crypto_kdf_derive_from_key", 32, 0, 0, 0, 0, 0, r_kdf },
    { "crypto_aead_chacha20poly1305_ietf_encrypt", 0, 1, 0, 130, 0, 0, r_aead }, { "crypto_aead_xchacha20poly1305_ietf_encrypt", 0, 1, 0, 130, 0, 0, r_aead_x },
    { "crypto_aead_chacha20poly1305_ietf_decrypt(forged)", 0, 1, 0, 130, 0, 0, r_aead_dec }, { "crypto_secretbox_easy", 0, 1, 0, 130, 0, 0, r_secretbox }, { "crypto_secretstream_push", 0, 1, 0, 130, 0, 0, r_secretstream },
    { "crypto_aead_aes256gcm_encrypt", 0, 1, 0, 130, 0, NEED_GCM, r_gcm }, { "crypto_aead_aegis128l_encrypt", 0, 1, 0, 130, 0, NEED_AESNI, r_aegis128l }, { "crypto_aead_aegis256_encrypt", 0, 1, 0, 130, 0, NEED_AESNI, r_aegis256 },
};
#define NOPS ((int) (sizeof OPS / sizeof OPS[0]))

/* ---------------- pair execution ---------------- */
static void traced(const op *O, uint64_t out[3], int log) { vt_begin(log); O->run(); vt_end(out); }

static void report(const op *O, const char *variant, long pos, const unsigned char *base, const unsigned char *var, const uint64_t hb[3], const uint64_t hv[3])
{
    static vt_event *L1, *L2; size_t n1, n2, i; uint64_t t[3]; char key[200];
    if (!L1) { L1 = malloc(sizeof(vt_event) * 2000000); L2 = malloc(sizeof(vt_event) * 2000000); }
    vt_logcap = 2000000;
    memcpy(SEC, base, slen); vt_log = L1; traced(O, t, 1); n1 = vt_lognum;
    memcpy(SEC, var, slen); vt_log = L2; traced(O, t, 1); n2 = vt_lognum;
    for (i = 0; i < n1 && i < n2; i++) if (L1[i].kind != L2[i].kind || L1[i].pc != L2[i].pc || L1[i].addr != L2[i].addr) break;
    snprintf(key, sizeof key, "secret-dependent-trace/%s/publen=%zu/variant=%s@%ld", O->name, publen, variant, pos);
    if (i < n1 && i < n2)
        vf_fail(key, "trace diverges at event %zu of %zu/%zu: base %s pc=+%#lx addr=%#lx, variant %s pc=+%#lx addr=%#lx (%s)", i, n1, n2,
                L1[i].kind == 1 ? "edge" : L1[i].kind == 2 ? "load" : "store", (unsigned long) L1[i].pc, (unsigned long) L1[i].addr,
                L2[i].kind == 1 ? "edge" : L2[i].kind == 2 ? "load" : "store", (unsigned long) L2[i].pc, (unsigned long) L2[i].addr,
                L1[i].pc != L2[i].pc || L1[i].kind != L2[i].kind ? "secret-dependent branch" : "secret-dependent memory address");
    else vf_fail(key, "trace lengths differ (%llu vs %llu events): secret-dependent control flow", (unsigned long long) hb[2], (unsigned long long) hv[2]);
}

/* Poly1305 secrets built backwards (ref/gen_poly_cases.py): (key, message) pairs whose accumulator before the final reduction sits on limb
 * boundaries, and keys whose r^2 / r^4 do - the values at which a "carry only if needed" shortcut would take a different path */
static unsigned char *pc_data; static long pc_n; static size_t *pc_off;
static void poly_cases_load(void)
{
    const char *path = getenv("VERIF_POLY_CASES"); FILE *f; long sz, i; size_t o; uint32_t n;
    if (!path || !(f = fopen(path, "rb"))) { printf("INFO poly cases file not available\n"); return; }
    fseek(f, 0, SEEK_END); sz = ftell(f); fseek(f, 0, SEEK_SET); pc_data = malloc((size_t) sz);
    if (fread(pc_data, 1, (size_t) sz, f) != (size_t) sz) exit(2);
    fclose(f); memcpy(&n, pc_data, 4); pc_n = (long) n; pc_off = malloc(sizeof(size_t) * (size_t) (pc_n + 1));
    for (i = 0, o = 4; i < pc_n; i++) { pc_off[i] = o; o += 32 + 2 + (size_t) (pc_data[o + 32] | pc_data[o + 33] << 8) + 16 + 24; }
}
static void check_item(const op *O, size_t plen)
{
    unsigned char base[512], var[512]; uint64_t hb[3], hv[3], hw[3]; int b; size_t i, j; static const unsigned char BV[3] = { 0x00, 0xff, 0x80 };
    publen = plen;
    slen = O->key_plus_msg == 1 ? 32 + plen : O->key_plus_msg == 2 ? 2 * plen : O->key_plus_msg == 3 ? plen : O->fixed_slen;
    n_ops++;
    for (b = 0; b < 7; b++) {
        static const int BASES[7] = { PAT_Z, PAT_F, PAT_R1, PAT_R2, PAT_R1, PAT_R1, PAT_R1 };
        /* scalar operations: three more base secrets on the boundary of the group order (L - 1, L, 2^252): the values at which a comparison with L
         * written with early exits, or a conditional final subtraction, would take a different path */
        static const unsigned char L_LE[32] = { 0xed,0xd3,0xf5,0x5c,0x1a,0x63,0x12,0x58,0xd6,0x9c,0xf7,0xa2,0xde,0xf9,0xde,0x14,0,0,0,0,0,0,0,0,0,0,0,0,0,0,0,0x10 };
        if (b >= 4 && !(strstr(O->name, "_scalar_") && slen >= 32)) continue;
        if (O->no_zero_base && BASES[b] == PAT_Z) continue;
        vf_pat(base, slen, BASES[b], 1300);
        if (b >= 4) { memcpy(base, L_LE, 32); if (b == 4) base[0] -= 1; if (b == 6) memset(base, 0, 31); }
        if (O->key_plus_msg == 2 && (b & 1)) memcpy(base + plen, base, plen);                 /* comparison helpers: also an EQUAL pair as base */
        if (O->run == r_verify16 && b == 1) memcpy(base + 16, base, 16);
        if (O->run == r_verify32 && b == 1) memcpy(base + 32, base, 32);
        if (O->run == r_verify64 && b == 1) memcpy(base + 64, base, 64);
        if (O->run == r_unpad) { memset(base + 48, 0, 16); base[48 + 5] = 0x80; }              /* a valid padding as base */
        /* verification wrappers: the public candidate tag is the correct tag of the BASE secret with its last byte changed, so the comparison differs
         * at the end for the base and at the start for every variant - an early-exit comparison of the secret-derived tag shows in the trace */
        if (O->run == r_auth_verify) { crypto_auth(OUT2, base + 32, plen, base); OUT2[31] ^= 1; }
        else if (O->run == r_auth256_verify) { crypto_auth_hmacsha256(OUT2, base + 32, plen, base); OUT2[31] ^= 1; }
        else if (O->run == r_auth512_verify) { crypto_auth_hmacsha512(OUT2, base + 32, plen, base); OUT2[63] ^= 1; }
        else if (O->run == r_poly_verify) { crypto_onetimeauth(OUT2, base + 32, plen, base); OUT2[15] ^= 1; }
        memcpy(SEC, base, slen); traced(O, hw, 0);                                             /* warm-up (discarded) */
        memcpy(SEC, base, slen); traced(O, hb, 0);
        memcpy(SEC, base, slen); traced(O, hw, 0);
        n_eval++;
        if (hw[0] != hb[0] || hw[1] != hb[1] || hw[2] != hb[2]) { char key[160]; snprintf(key, sizeof key, "trace-nondeterministic/%s/publen=%zu", O->name, plen); vf_fail(key, "the same secret gave two different traces (harness problem)"); return; }
        if (hb[2] > n_events_max) n_events_max = hb[2];
        if (b == 2 && (plen == 0 || plen == 65)) VF_SAMPLE_CASE(5, "%s public length %zu, base secret %s (%zu bytes): trace of %llu events (edges+loads+stores), hash %016llx; compared with %zu single-bit and %zu single-byte variants", O->name, plen, vf_hex(base, slen > 32 ? 32 : slen), slen, (unsigned long long) hb[2], (unsigned long long) hb[0], 8 * slen, 3 * slen);
#define PAIR(variantname, pos) do { memcpy(SEC, var, slen); traced(O, hv, 0); n_eval++; n_nontriv++; \
            if (hv[0] != hb[0] || hv[1] != hb[1] || hv[2] != hb[2]) { report(O, variantname, (long) (pos), base, var, hb, hv); if (vf_nfail >= VF_MAXFAIL) return; goto next_base; } } while (0)
        for (i = 0; i < 8 * slen; i++) { memcpy(var, base, slen); var[i >> 3] ^= (unsigned char) (1u << (i & 7)); PAIR("bitflip", i); }
        for (i = 0; i < slen; i++) for (j = 0; j < 3; j++) { if (base[i] == BV[j]) continue; memcpy(var, base, slen); var[i] = BV[j]; PAIR(j == 0 ? "byte=00" : j == 1 ? "byte=ff" : "byte=80", i); }
        if (O->run == r_unpad) for (i = 0; i < 16; i++) { memcpy(var, base, slen); memset(var + 48, 0, 16); var[48 + i] = 0x80; PAIR("pad-position", i); }   /* every pad position in the last block */
        if ((O->run == r_poly || O->run == r_poly_verify) && b == 2 && pc_n) { long k; for (k = 0; k < pc_n; k++) { const unsigned char *rec = pc_data + pc_off[k]; size_t len = (size_t) (rec[32] | rec[33] << 8);
            if (len != plen) continue; memcpy(var, rec, 32); memcpy(var + 32, rec + 34, len); PAIR("built-backwards-case", k); } }
        { static const int OTHER[7] = { PAT_C, PAT_H, PAT_R2, PAT_R1, PAT_C, PAT_H, PAT_R2 }; vf_pat(var, slen, OTHER[b], 1301); if (O->run == r_unpad) { memset(var + 48, 0, 16); var[50] = 0x80; } PAIR("other-pattern", b); }
next_base:;
    }
}

/* sodium_pad: the secret is the unpadded length within one block (all give the same padded length and the same tail pointer) */
static void check_pad(void)
{
    uint64_t hb[3], hv[3]; size_t l, bs; static const size_t BS[3] = { 16, 13, 64 };
    for (bs = 0; bs < 3; bs++) {
        size_t blk = BS[bs], lo = 2 * blk, pl;
        memset(SEC, 0x11, sizeof SEC); sodium_pad(&pl, SEC, lo, blk, sizeof SEC);
        memset(SEC, 0x11, sizeof SEC); vt_begin(0); sodium_pad(&pl, SEC, lo, blk, sizeof SEC); vt_end(hb);
        for (l = lo + 1; l < lo + blk; l++) {
            memset(SEC, 0x11, sizeof SEC); vt_begin(0); sodium_pad(&pl, SEC, l, blk, sizeof SEC); vt_end(hv); n_eval++; n_nontriv++;
            if (hv[0] != hb[0] || hv[1] != hb[1] || hv[2] != hb[2]) { char key[128]; snprintf(key, sizeof key, "secret-dependent-trace/sodium_pad/blocksize=%zu/unpadded_len=%zu", blk, l); vf_fail(key, "trace differs from unpadded_len=%zu (same padded length)", lo); break; }
        }
    }
}

typedef struct { int op; size_t plen; } item;
static item ITEMS[20000]; static int nitems;
static void do_item(long k) { check_item(&OPS[ITEMS[k].op], ITEMS[k].plen); }
static void fin(void) { vf_stat("evaluations", n_eval); vf_stat("nontrivial", n_nontriv); vf_stat("operation_shapes", n_ops); vf_stat("max_points", n_events_max); n_eval = n_nontriv = n_ops = 0; }

int main(void)
{
    int i; size_t l; static const size_t QL[] = { 0, 1, 15, 16, 17, 31, 32, 33, 63, 64, 65, 100, 127, 128, 129, 130 }; unsigned char seed[32], h[64];
    vf_init_seed(); thorough = vf_tier_thorough();
    if (sodium_init() < 0) return 2;
    printf("INFO features avx512f=%d avx2=%d avx=%d ssse3=%d sse2=%d aesni=%d gcm=%d\n", sodium_runtime_has_avx512f(), sodium_runtime_has_avx2(), sodium_runtime_has_avx(), sodium_runtime_has_ssse3(), sodium_runtime_has_sse2(), sodium_runtime_has_aesni(), crypto_aead_aes256gcm_is_available());
    vf_pat(seed, 32, PAT_R1, 1310); crypto_scalarmult_base(PUBP, seed);                       /* public X25519 point */
    { unsigned char pk[32], sk[64]; crypto_sign_seed_keypair(pk, sk, seed); memcpy(SK + 32, pk, 32); }
    vf_pat(h, 64, PAT_R2, 1311); crypto_core_ristretto255_from_hash(RISP, h);
    vf_pat(NONCE, 32, PAT_C, 1312); vf_pat(MSGPUB, sizeof MSGPUB, PAT_C, 1313); vf_pat(OUT2, sizeof OUT2, PAT_R2, 1314);
    crypto_scalarmult_ed25519_base(EDP, seed);                                                  /* public Edwards point for the variable-base operations */
    for (i = 0; i < NOPS; i++) {
        if (OPS[i].needs == NEED_GCM && !crypto_aead_aes256gcm_is_available()) continue;
        if (OPS[i].needs == NEED_AESNI && !(sodium_runtime_has_aesni() && sodium_runtime_has_avx())) continue;   /* only the hardware-AES AEADs are in scope */
        if (OPS[i].pub_hi == 0) { ITEMS[nitems].op = i; ITEMS[nitems++].plen = 0; continue; }
        if (thorough) { for (l = (size_t) OPS[i].pub_lo; l <= (size_t) OPS[i].pub_hi; l++) { ITEMS[nitems].op = i; ITEMS[nitems++].plen = l; } }
        else for (l = 0; l < sizeof QL / sizeof QL[0]; l++) if (QL[l] <= (size_t) OPS[i].pub_hi) { ITEMS[nitems].op = i; ITEMS[nitems++].plen = QL[l]; }
    }
    poly_cases_load();
    if (pc_n && !thorough) for (i = 0; i < NOPS; i++) if (OPS[i].run == r_poly) { ITEMS[nitems].op = i; ITEMS[nitems++].plen = 80; ITEMS[nitems].op = i; ITEMS[nitems++].plen = 208; }   /* the other two lengths of the built-backwards cases */
    if (pc_n && thorough) for (i = 0; i < NOPS; i++) if (OPS[i].run == r_poly) { ITEMS[nitems].op = i; ITEMS[nitems++].plen = 208; }
    if (nitems > 19990) { fprintf(stderr, "item table too small\n"); return 2; }
    printf("INFO items %d\n", nitems);
    vf_parallel(16, 0, nitems, do_item, fin);
    check_pad(); fin();
    vf_sample("crypto_scalarmult(X25519): base secret R1 vs R1 with bit 137 flipped, same public point: edge/load/store trace hashes must be equal");
    vf_sample("sodium_unpad(64-byte buffer, blocksize 16): marker 0x80 at each of the 16 positions of the last block vs position 5");
    vf_sample("crypto_aead_aes256gcm_encrypt mlen=65: key||message = F-pattern vs the same with byte 40 set to 0x00");
    vf_sample("sodium_memcmp len=33: an equal pair vs the pair differing in bit 0 of byte 32 (result differs, trace must not)");
    return 0;
}
