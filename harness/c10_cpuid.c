/* C10 detector: the CPU-feature detector as a model-checked function. Through the guarded hook (H2) every combination of the CPUID /
 * XCR0 bits the detector reads is scripted and the reported flags are checked against the Intel SDM rule, as "reported => provided".
 * Unscripted: the flags reported on this machine must be a subset of /proc/cpuinfo and of the harness's own CPUID/XGETBV reading. */
#include "common.h"
#include <sodium.h>

extern void (*_sodium_verif_cpuid_script)(unsigned int cpu_info[4U], const unsigned int cpu_info_type);
extern uint32_t (*_sodium_verif_xgetbv_script)(void);
int _sodium_runtime_get_cpu_features(void);

#define ECX_SSE3 0x1u
#define ECX_PCLMUL 0x2u
#define ECX_SSSE3 0x200u
#define ECX_SSE41 0x80000u
#define ECX_AESNI 0x2000000u
#define ECX_XSAVE 0x4000000u
#define ECX_OSXSAVE 0x8000000u
#define ECX_AVX 0x10000000u
#define ECX_RDRAND 0x40000000u
#define EDX_SSE2 0x4000000u
#define EBX_AVX2 0x20u
#define EBX_AVX512F 0x10000u
static const unsigned ECXB[9] = { ECX_SSE3, ECX_PCLMUL, ECX_SSSE3, ECX_SSE41, ECX_AESNI, ECX_XSAVE, ECX_OSXSAVE, ECX_AVX, ECX_RDRAND };
static const unsigned XCRB[5] = { 0x2, 0x4, 0x20, 0x40, 0x80 };

static unsigned s_maxleaf, s_ecx, s_edx, s_ebx7, s_xcr0, xgetbv_calls;
static void script(unsigned int ci[4], const unsigned int leaf)
{
    unsigned l = leaf;
    ci[0] = ci[1] = ci[2] = ci[3] = 0;
    if (l > s_maxleaf) l = s_maxleaf;          /* SDM: a leaf above the maximum returns the data of the highest basic leaf */
    if (l == 0) { ci[0] = s_maxleaf; return; }
    if (l == 1) { ci[2] = s_ecx; ci[3] = s_edx; return; }
    if (l == 7) { ci[1] = s_ebx7; return; }
}
static uint32_t xg(void) { xgetbv_calls++; return s_xcr0; }

static unsigned long long n_eval, n_reported;
static void one(unsigned maxleaf, unsigned combo)
{
    unsigned i, ecx = 0, xcr = 0; int avx_ok, ok1; char key[160];
    for (i = 0; i < 9; i++) if (combo & (1u << i)) ecx |= ECXB[i];
    for (i = 0; i < 5; i++) if (combo & (1u << (12 + i))) xcr |= XCRB[i];
    s_maxleaf = maxleaf; s_ecx = ecx; s_edx = (combo & (1u << 9)) ? EDX_SSE2 : 0; s_ebx7 = ((combo & (1u << 10)) ? EBX_AVX2 : 0) | ((combo & (1u << 11)) ? EBX_AVX512F : 0); s_xcr0 = xcr; xgetbv_calls = 0;
    _sodium_runtime_get_cpu_features();
    n_eval++;
    ok1 = maxleaf >= 1;
    avx_ok = ok1 && (ecx & ECX_AVX) && (ecx & ECX_OSXSAVE) && (xcr & 0x6) == 0x6;
    snprintf(key, sizeof key, "cpu-detector/maxleaf=%u/ecx=%#x/edx=%#x/ebx7=%#x/xcr0=%#x", maxleaf, s_ecx, s_edx, s_ebx7, s_xcr0);
#define IMPLIES(flagfn, cond, name) do { if (flagfn()) { n_reported++; if (!(cond)) vf_fail(key, "reports %s although the processor/OS state does not provide it", name); } } while (0)
    IMPLIES(sodium_runtime_has_sse2, ok1 && (s_edx & EDX_SSE2), "SSE2");
    IMPLIES(sodium_runtime_has_sse3, ok1 && (ecx & ECX_SSE3), "SSE3");
    IMPLIES(sodium_runtime_has_ssse3, ok1 && (ecx & ECX_SSSE3), "SSSE3");
    IMPLIES(sodium_runtime_has_sse41, ok1 && (ecx & ECX_SSE41), "SSE4.1");
    IMPLIES(sodium_runtime_has_pclmul, ok1 && (ecx & ECX_PCLMUL), "PCLMUL");
    IMPLIES(sodium_runtime_has_aesni, ok1 && (ecx & ECX_AESNI), "AES-NI");
    IMPLIES(sodium_runtime_has_rdrand, ok1 && (ecx & ECX_RDRAND), "RDRAND");
    IMPLIES(sodium_runtime_has_avx, avx_ok, "AVX (needs CPUID.AVX, OSXSAVE and XCR0[2:1]=11)");
    IMPLIES(sodium_runtime_has_avx2, avx_ok && maxleaf >= 7 && (s_ebx7 & EBX_AVX2), "AVX2");
    IMPLIES(sodium_runtime_has_avx512f, avx_ok && maxleaf >= 7 && (s_ebx7 & EBX_AVX512F) && (xcr & 0xe0) == 0xe0, "AVX-512F (needs XCR0[7:5]=111)");
    if (xgetbv_calls && !(ecx & ECX_OSXSAVE)) vf_fail(key, "XGETBV executed although OSXSAVE is clear (would fault on such a processor)");
    if (sodium_runtime_has_neon() || sodium_runtime_has_armcrypto()) vf_fail(key, "reports ARM features on x86");
}
static void do_chunk(long c) { unsigned lo = (unsigned) c << 11, k; static const unsigned ML[2] = { 1, 7 }; int m; for (m = 0; m < 2; m++) for (k = 0; k < 2048; k++) one(ML[m], lo + k); }
/* max leaf 0: the detector returns before reading anything and leaves the (zero-initialised) flags untouched, so it must be observed in a
 * process where detection has never run: one pristine forked child per combination (the combination cannot matter; 128 are run) */
static void fin(void);
static void do_leaf0(long c) { pid_t pid; int st; fflush(stdout); pid = fork(); if (pid == 0) { one(0, (unsigned) c * 1031u + 17u); fin(); fflush(stdout); _exit(0); } waitpid(pid, &st, 0); }
static void fin(void) { vf_stat("evaluations", n_eval); vf_stat("nontrivial", n_eval); vf_stat("flags_reported", n_reported); n_eval = n_reported = 0; }

static unsigned real_cpuid(unsigned leaf, unsigned sub, unsigned *b, unsigned *c, unsigned *d) { unsigned a; __asm__ __volatile__("cpuid" : "=a"(a), "=b"(*b), "=c"(*c), "=d"(*d) : "0"(leaf), "2"(sub)); return a; }
static int cpuinfo_has(const char *flags, const char *f) { char pat[32]; snprintf(pat, sizeof pat, " %s ", f); return strstr(flags, pat) != NULL; }

int main(void)
{
    static char flags[8192] = " "; FILE *fp; char line[8192]; unsigned a, b, c, d, b7 = 0, c7, d7, xlo = 0, xhi;
    vf_init_seed();
    /* scripted: all 2^17 combinations x max leaf {0,1,7} */
    _sodium_verif_cpuid_script = script; _sodium_verif_xgetbv_script = xg;
    vf_parallel(16, 0, 128, do_leaf0, NULL);
    vf_parallel(16, 0, 64, do_chunk, fin);
    _sodium_verif_cpuid_script = NULL; _sodium_verif_xgetbv_script = NULL;
    /* unscripted: what the library reports on this machine */
    if (sodium_init() < 0) return 2;
    fp = fopen("/proc/cpuinfo", "r");
    while (fp && fgets(line, sizeof line, fp)) if (!strncmp(line, "flags", 5)) { char *p = strchr(line, ':'); if (p) { snprintf(flags, sizeof flags, " %s", p + 1); flags[strcspn(flags, "\n")] = ' '; } break; }
    if (fp) fclose(fp);
    a = real_cpuid(0, 0, &b, &c, &d); real_cpuid(1, 0, &b, &c, &d); if (a >= 7) real_cpuid(7, 0, &b7, &c7, &d7);
    if (c & ECX_OSXSAVE) __asm__ __volatile__(".byte 0x0f, 0x01, 0xd0" : "=a"(xlo), "=d"(xhi) : "c"(0));
#define UNS(fn, own, cpuinfoname) do { n_eval++; if (fn() && !(own)) vf_fail("cpu-flags/unscripted/" cpuinfoname, "reported but the harness's own CPUID/XGETBV reading says it is not provided"); \
        if (fn() && strlen(flags) > 10 && !cpuinfo_has(flags, cpuinfoname)) vf_fail("cpu-flags/unscripted-cpuinfo/" cpuinfoname, "reported but absent from /proc/cpuinfo"); } while (0)
    UNS(sodium_runtime_has_sse2, d & EDX_SSE2, "sse2"); UNS(sodium_runtime_has_sse3, c & ECX_SSE3, "pni"); UNS(sodium_runtime_has_ssse3, c & ECX_SSSE3, "ssse3"); UNS(sodium_runtime_has_sse41, c & ECX_SSE41, "sse4_1");
    UNS(sodium_runtime_has_pclmul, c & ECX_PCLMUL, "pclmulqdq"); UNS(sodium_runtime_has_aesni, c & ECX_AESNI, "aes"); UNS(sodium_runtime_has_rdrand, c & ECX_RDRAND, "rdrand");
    UNS(sodium_runtime_has_avx, (c & ECX_AVX) && (c & ECX_OSXSAVE) && (xlo & 6) == 6, "avx"); UNS(sodium_runtime_has_avx2, (c & ECX_AVX) && (xlo & 6) == 6 && (b7 & EBX_AVX2), "avx2");
    UNS(sodium_runtime_has_avx512f, (c & ECX_AVX) && (xlo & 0xe6) == 0xe6 && (b7 & EBX_AVX512F), "avx512f");
    printf("INFO unscripted flags: sse2=%d avx=%d avx2=%d avx512f=%d aesni=%d pclmul=%d rdrand=%d\n", sodium_runtime_has_sse2(), sodium_runtime_has_avx(), sodium_runtime_has_avx2(), sodium_runtime_has_avx512f(), sodium_runtime_has_aesni(), sodium_runtime_has_pclmul(), sodium_runtime_has_rdrand());
    fin();
    vf_sample("maxleaf=7 ECX={AVX,XSAVE,OSXSAVE} EBX7={AVX2} XCR0={SSE} (OS did not enable YMM state): must not report AVX/AVX2");
    vf_sample("maxleaf=7 ECX={AVX,XSAVE,OSXSAVE} EBX7={AVX2,AVX512F} XCR0={SSE,AVX,OPMASK,ZMM_HI256}: AVX2 may be reported, AVX-512F must not (HI16_ZMM disabled)");
    vf_sample("maxleaf=1 with AVX+OSXSAVE+XCR0 ok: leaf 7 does not exist -> AVX2 must not be reported");
    return 0;
}
