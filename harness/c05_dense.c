/* C05 dense differential family: N = 2^k declared (scalar, point) pairs from a counter-mode generator; one digest per block of 4096 cases.
 * Run once per ladder implementation (process = backend configuration); vf/props/c05.py compares the digests of all backends and, on a
 * mismatch, re-runs the block with VERIF_DENSE_DUMP=<block> and judges the differing cases with the big-integer reference.
 * Catches value coincidences in limb arithmetic of probability >~ 2^-(k-2) per call that no structured family anticipates. */
#include "common.h"
#include <sodium.h>
static uint64_t sm(uint64_t *s) { uint64_t z = (*s += 0x9e3779b97f4a7c15ULL); z = (z ^ (z >> 30)) * 0xbf58476d1ce4e5b9ULL; z = (z ^ (z >> 27)) * 0x94d049bb133111ebULL; return z ^ (z >> 31); }
static long NBLK; static long dump_block = -1; static uint64_t seed0;
static void gen(long blk, int i, unsigned char n[32], unsigned char p[32])
{
    uint64_t s = seed0 ^ ((uint64_t) blk * 4096 + (uint64_t) i) * 0xd1342543de82ef95ULL, w; int k;
    for (k = 0; k < 4; k++) { w = sm(&s); memcpy(n + 8 * k, &w, 8); }
    for (k = 0; k < 4; k++) { w = sm(&s); memcpy(p + 8 * k, &w, 8); }
}
static void do_blocks(long w)
{
    long blk; unsigned char n[32], p[32], q[32];
    for (blk = w; blk < NBLK; blk += 16) {
        uint64_t h = 0xcbf29ce484222325ULL; int i, j, r;
        if (dump_block >= 0 && blk != dump_block) continue;
        for (i = 0; i < 4096; i++) {
            gen(blk, i, n, p); r = crypto_scalarmult(q, n, p);
            for (j = 0; j < 32; j++) { h ^= q[j]; h *= 0x100000001b3ULL; } h ^= (uint64_t) (r & 0xff); h *= 0x100000001b3ULL;
            if (dump_block >= 0) { printf("CASE %d %d ", i, r); for (j = 0; j < 32; j++) printf("%02x", n[j]); printf(" "); for (j = 0; j < 32; j++) printf("%02x", p[j]); printf(" "); for (j = 0; j < 32; j++) printf("%02x", q[j]); printf("\n"); }
        }
        printf("DIG %ld %016llx\n", blk, (unsigned long long) h);
    }
}
static void fin(void) { }
int main(int argc, char **argv)
{
    const char *d = getenv("VERIF_DENSE_DUMP");
    vf_init_seed(); seed0 = 0x5eed0000ULL + (uint64_t) vf_seed;
    NBLK = argc > 1 ? atol(argv[1]) : 512; if (d) dump_block = atol(d);
    if (sodium_init() < 0) return 2;
    printf("INFO features avx=%d\n", sodium_runtime_has_avx());
    vf_parallel(16, 0, 16, do_blocks, fin);
    return 0;
}
