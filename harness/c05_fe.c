/* C05/C06/C07 seam driver: the field arithmetic modulo 2^255-19 exactly as the ladders and group formulas use it - elements decoded from
 * 32 bytes, at most one lazy addition/subtraction, then a multiplication-class operation, then full reduction by fe25519_tobytes.
 * Compiled against the tree's private headers with the variant's configuration (51-bit limbs with 128-bit integers, 25.5-bit without).
 * stdin: records op[1] a[32] b[32]; stdout: 32 bytes per record.  The expected values are computed with Python integers. */
#include <stdio.h>
#include <string.h>
#include <sodium.h>
#include "private/ed25519_ref10.h"

int main(void)
{
    unsigned char rec[65], out[32]; fe25519 A, B, X, Y, R; int lazy;
    if (sodium_init() < 0) return 2;
    while (fread(rec, 1, 65, stdin) == 65) {
        fe25519_frombytes(A, rec + 1); fe25519_frombytes(B, rec + 33);
        fe25519_add(X, A, B); fe25519_sub(Y, A, B);
        memset(out, 0, 32); lazy = 0;
        switch (rec[0]) {
        case 'M': fe25519_mul(R, A, B); break;
        case 'm': fe25519_mul(R, X, Y); break;
        case 'S': fe25519_sq(R, A); break;
        case 's': fe25519_sq(R, X); break;
        case 'q': fe25519_sq(R, Y); break;
        case 'D': fe25519_sq2(R, A); break;
        case 'd': fe25519_sq2(R, Y); break;
        case '3': fe25519_mul32(R, Y, 121666); break;
        case '4': fe25519_mul32(R, X, 121666); break;
        case 'n': fe25519_neg(R, Y); lazy = 1; break;
        case 'N': fe25519_neg(R, A); break;
        case 'x': fe25519_copy(R, X); lazy = 1; break;       /* a lazy sum ... */
        case 'y': fe25519_copy(R, Y); lazy = 1; break;       /* ... / difference through a multiplication by one */
        case 'a': fe25519_mul(R, A, B); fe25519_add(R, R, A); lazy = 1; break;       /* product + element (as in the addition formulas) */
        case 'b': fe25519_mul(R, A, B); fe25519_sub(R, R, B); lazy = 1; break;
        case 'i': fe25519_invert(R, A); break;
        case 'j': fe25519_invert(R, Y); break;
        case 'c': fe25519_copy(R, A); fe25519_cmov(R, B, rec[1] & 1); break;
        case 'w': fe25519_copy(R, A); fe25519_copy(X, B); fe25519_cswap(R, X, rec[33] & 1); break;
        case 'z': fe25519_0(R); out[0] = (unsigned char) fe25519_iszero(Y); out[1] = (unsigned char) fe25519_isnegative(Y); out[2] = (unsigned char) fe25519_iszero(A); out[3] = (unsigned char) fe25519_isnegative(X);
                  fwrite(out, 1, 32, stdout); continue;
        default: return 4;
        }
        /* fe25519_tobytes is only specified for carried elements (outputs of mul/sq/invert/frombytes): a lazy sum or difference is first
         * multiplied by one, which is how the library itself always consumes such values */
        if (lazy) { fe25519 one; fe25519_1(one); fe25519_mul(R, R, one); }
        fe25519_tobytes(out, R);
        fwrite(out, 1, 32, stdout);
    }
    return 0;
}
