#!/usr/bin/env python3
"""Run checks against every seeded change: apply seeded/<name>/patch.diff to a scratch copy of the repository (never /repo itself when
VERIF_REPO / VP_RUN_REPO points elsewhere), run the listed checks' quick tier, record which report a VIOLATION, undo the patch.
usage: run_seeds.py [--all-checks] [seed ...]      (default: each seed against its own property's check)
Results: seeded/RESULTS.json (and 'detected_by' in each meta.json when run from /verif)."""
import json, os, subprocess, sys, time
VERIF = os.path.dirname(os.path.dirname(os.path.abspath(__file__)))
REPO = os.environ.get("VERIF_REPO") or os.environ.get("VP_RUN_REPO") or "/tmp/repo_scratch"
if os.path.realpath(REPO) == "/repo":
    sys.exit("refusing to apply seeded changes to /repo itself: point VERIF_REPO at a scratch worktree (tools/mkwt.sh <dir>)")
if not os.path.isdir(REPO):
    subprocess.check_call([os.path.join(VERIF, "tools", "mkwt.sh"), REPO])
os.environ["VERIF_REPO"] = REPO
ALL = "--all-checks" in sys.argv
seeds = [a for a in sys.argv[1:] if not a.startswith("--")] or sorted(os.listdir(os.path.join(VERIF, "seeded")))
seeds = [s for s in seeds if os.path.isdir(os.path.join(VERIF, "seeded", s))]
props = sorted(f[:-3].upper() for f in os.listdir(os.path.join(VERIF, "vf", "props")) if f.startswith("c") and f.endswith(".py"))
results = {}
for s in seeds:
    d = os.path.join(VERIF, "seeded", s)
    meta = json.load(open(os.path.join(d, "meta.json")))
    patch = os.path.join(d, "patch.diff")
    if subprocess.run(["git", "-C", REPO, "apply", "--check", patch]).returncode != 0:
        results[s] = {"error": "patch does not apply to the current tree"}; print(s, "PATCH DOES NOT APPLY"); continue
    subprocess.check_call(["git", "-C", REPO, "apply", patch])
    try:
        det = {}
        for p in (props if ALL else [meta["property"]]):
            t = time.time()
            r = subprocess.run([sys.executable, os.path.join(VERIF, "vf", "check.py"), p, "--tier", "quick"], cwd=VERIF, capture_output=True, text=True, timeout=3600)
            v = [l for l in r.stdout.splitlines() if l.startswith("VIOLATION")]
            first = next((l.strip() for l in r.stdout.splitlines() if l.strip().startswith("violation:")), "")
            det[p] = {"rc": r.returncode, "violation": bool(v), "first": first[:300], "wall_s": round(time.time() - t, 1)}
            print(s, p, "rc=%d" % r.returncode, "DETECTED" if v else "missed", first[:120], flush=True)
        results[s] = det
    finally:
        subprocess.check_call(["git", "-C", REPO, "checkout", "--", "."])
    if REPO == "/repo" or True:
        meta["detected_by"] = sorted(p for p, x in results[s].items() if isinstance(x, dict) and x.get("violation"))
        meta["checked_with"] = sorted(results[s].keys())
        json.dump(meta, open(os.path.join(d, "meta.json"), "w"), indent=1)
json.dump(results, open(os.path.join(VERIF, "seeded", "RESULTS%s%s.json" % ("_matrix" if ALL else "", os.environ.get("RESULTS_SUFFIX", ""))), "w"), indent=1)
subprocess.run("rm -rf %s" % os.path.join(VERIF, "replay"), shell=True)
