#!/bin/sh
# usage: mkwt.sh <dir>  -- scratch git worktree of /repo (HEAD) with the autotools artefacts copied in,
# configured and built, ready for `make -j16 check`.  Remove with: git -C /repo worktree remove --force <dir>
set -e
d="$1"
git -C /repo worktree add -q --detach "$d" HEAD
cd /repo
for f in configure aclocal.m4 build-aux $(find . -name Makefile.in -not -path './.git/*'); do
  mkdir -p "$d/$(dirname $f)"; cp -a "$f" "$d/$f"
done
cd "$d"
./configure -q >/dev/null 2>&1
make -j16 >/dev/null 2>&1
echo "worktree ready: $d"
