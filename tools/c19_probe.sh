#!/bin/bash
# timing probe for deeper C19 bounds (run through `vp run`)
cd "$(dirname "$0")/.."
python3 - <<'PY'
import sys,os,time
sys.path.insert(0,os.getcwd())
from vf import common
from vf.props import c19
c19.prepare('thorough')
e1,e2=c19.exes()
for a in (['init','4','1'],['init','3','2'],['init','4','2']):
    t=time.time(); r=common.run([e1]+a,timeout=4*3600); print(a, r.stats, len(r.fails), round(time.time()-t,1), flush=True)
PY
