#!/bin/bash
# usage: verify_seed.sh <ID> [seed-name] [extra demo link flags...]
# Confirms a sub-agent's seeded change in its scratch worktree /tmp/wt_<ID>: patch applies, make check passes with it,
# demo fails with it and passes without; then stores it as /verif/seeded/<name>/ and removes the worktree.
set -u
ID="$1"; NAME="${2:-$1}"; shift; shift || true
EXTRA="$*"
T=${WT_PREFIX:-/tmp/wt_}$NAME; S=${SEED_PREFIX:-/tmp/seed_}$NAME; STORE=${STORE_NAME:-$NAME}
[ -d "$T" ] || { echo "no worktree $T"; exit 2; }
cd "$T"
git checkout -q -- . && git apply --check "$S/patch.diff" || { echo "patch does not apply"; exit 1; }
demo() { cc -O1 -g -I"$T/src/libsodium/include" -o "$S/demo.bin" "$S/demo.c" "$T/src/libsodium/.libs/libsodium.a" -lpthread $EXTRA 2>&1 | grep -v warning | head -5; ( cd "$S" && timeout 600 ./demo.bin >/tmp/demo_$NAME.out 2>&1 ); echo $?; }
make -j16 >/dev/null 2>&1; base_check=$(make -j16 check 2>&1 | grep -E '^# (PASS|FAIL):' | tr -d '\n ')
base_demo=$(demo | tail -1)
git apply "$S/patch.diff"
make -j16 >/dev/null 2>&1; mut_check=$(make -j16 check 2>&1 | grep -E '^# (PASS|FAIL):' | tr -d '\n ')
mut_demo=$(demo | tail -1)
echo "base: check=$base_check demo_rc=$base_demo | patched: check=$mut_check demo_rc=$mut_demo"
if [ "$base_check" = "#PASS:82#FAIL:0" ] && [ "$mut_check" = "#PASS:82#FAIL:0" ] && [ "$base_demo" = "0" ] && [ "$mut_demo" != "0" ]; then
  D=/verif/seeded/$STORE; mkdir -p $D
  cp "$S/patch.diff" "$S/demo.c" $D/; [ -f "$S/NOTES.md" ] && cp "$S/NOTES.md" $D/
  for f in "$S"/*.sh "$S"/*.h "$S"/*.py; do [ -f "$f" ] && cp "$f" $D/; done
  python3 - "$ID" "$STORE" "$EXTRA" "$base_check" "$mut_check" "$base_demo" "$mut_demo" <<'PY'
import json,sys,os
pid,name,extra,bc,mc,bd,md=sys.argv[1:8]
d='/verif/seeded/'+name
notes=open(d+'/NOTES.md').read() if os.path.exists(d+'/NOTES.md') else ''
json.dump({"property":pid,"name":name,"breaks":"see NOTES.md","needs_to_manifest":"see NOTES.md",
 "confirmed":{"unpatched_make_check":bc,"patched_make_check":mc,"unpatched_demo_rc":int(bd),"patched_demo_rc":int(md)},
 "ran":["git apply patch.diff in scratch worktree of /repo HEAD","make -j16 && make -j16 check (both trees)",
        "cc -O1 -g -I<tree>/src/libsodium/include demo.c <tree>/src/libsodium/.libs/libsodium.a -lpthread "+extra+" && ./demo (both trees)"],
 "detected_by":"(filled in after running the checks)"}, open(d+'/meta.json','w'), indent=1)
PY
  echo "KEPT $STORE"
  rm -f "$S/demo.bin"
  git -C /repo worktree remove --force "$T"
else
  echo "REJECTED $NAME (left in place)"; tail -5 /tmp/demo_$NAME.out
fi
