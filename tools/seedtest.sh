#!/bin/bash
# usage: seedtest.sh <patch.diff> <ID> [<ID> ...]   -- run quick checks against a seeded change applied to the scratch worktree
# /tmp/repo_scratch (created with tools/mkwt.sh); /repo itself is never touched.
S=${SCRATCH:-/tmp/repo_scratch2}; P="$1"; shift
git -C $S checkout -q -- . && git -C $S apply "$P" || { echo "patch does not apply"; exit 2; }
for id in "$@"; do
  VERIF_REPO=$S timeout 3000 python3 /verif/vf/check.py $id --tier quick 2>&1 | grep -E '^(OK|VIOLATION|INFRA|  violation)' | cut -c1-260 | tail -3
done
git -C $S checkout -q -- .
rm -rf /verif/replay
